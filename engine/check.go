package main

import (
	"encoding/json"
	"fmt"
	"hash/fnv"
	"os"
	"path/filepath"
	"runtime"
	"sort"
	"strconv"
	"strings"
	"time"
)

type HarnessSpec struct {
	Name     string                      `json:"name"`
	Pkg      string                      `json:"pkg"`   // repo-relative package directory ("." = root)
	Files    []string                    `json:"files"` // relative to /verif
	Entry    string                      `json:"entry"`
	Params   map[string]map[string]int64 `json:"params"` // "all" | "quick" | "thorough" -> name -> value
	Reach    []string                    `json:"reach"`  // vacuity witnesses that must be hit
	Tiers    []string                    `json:"tiers"`  // default: both
	Anchors  []string                    `json:"anchors"`
	NoNative bool                        `json:"no_native"`
	Instrs   int                         `json:"instrs"`
	Depth    int                         `json:"depth"`
	Preempt  map[string]int              `json:"preempt"`
	Termination bool                     `json:"termination"` // truncated paths are violation candidates (termination property)
	MaxSeconds map[string]int            `json:"max_seconds"`
}

type Spec struct {
	Property    string        `json:"property"`
	Technique   string        `json:"technique"`
	Bounds      []string      `json:"bounds"`
	Outside     []string      `json:"outside_the_claim"`
	Assumptions []string      `json:"assumptions"`
	Stubs       []string      `json:"stubs"`
	Harnesses   []HarnessSpec `json:"harnesses"`
}

type KnownFinding struct {
	Property string   `json:"property"`
	ID       string   `json:"id"`
	Status   string   `json:"status"` // known | fixed
	Harness  string   `json:"harness"`
	Kind     string   `json:"kind"`
	Label    string   `json:"label"`
	Tags     []string `json:"tags"`
	What     string   `json:"what"`
	Commit   string   `json:"commit,omitempty"`
	Replay   string   `json:"replay,omitempty"`
}

type KnownFile struct {
	Findings []KnownFinding `json:"findings"`
	Fixed    []string       `json:"fixed_log"`
}

func (k *KnownFinding) matches(harness string, f *Failure) bool {
	if k.Harness != harness || (k.Kind != "" && k.Kind != f.Kind) {
		return false
	}
	if strings.HasSuffix(k.Label, "*") {
		if !strings.HasPrefix(f.Label, strings.TrimSuffix(k.Label, "*")) {
			return false
		}
	} else if k.Label != f.Label {
		return false
	}
	for _, t := range k.Tags {
		found := false
		for _, ft := range f.Tags {
			if ft == t {
				found = true
				break
			}
		}
		if !found {
			return false
		}
	}
	return true
}

func verifRoot() string {
	if v := os.Getenv("VERIF_ROOT"); v != "" {
		return v
	}
	return "/verif"
}

func repoRoot() string {
	if v := os.Getenv("VERIF_REPO"); v != "" {
		return v
	}
	return "/repo"
}

const modulePath = "github.com/hack-pad/hackpadfs"

func importPath(pkgDir string) string {
	if pkgDir == "." || pkgDir == "" {
		return modulePath
	}
	return modulePath + "/" + pkgDir
}

func inTier(h *HarnessSpec, tier string) bool {
	if len(h.Tiers) == 0 {
		return true
	}
	for _, t := range h.Tiers {
		if t == tier {
			return true
		}
	}
	return false
}

func paramsFor(h *HarnessSpec, tier string) map[string]int64 {
	p := map[string]int64{}
	for k, v := range h.Params["all"] {
		p[k] = v
	}
	for k, v := range h.Params[tier] {
		p[k] = v
	}
	return p
}

type checkOutcome struct {
	violations   []string
	known        []string
	inconclusive []string
}

func shortHash(s string) string {
	h := fnv.New32a()
	h.Write([]byte(s))
	return strconv.FormatUint(uint64(h.Sum32()), 16)
}

func runCheck(prop, tier string) int {
	t0 := time.Now()
	root, repo := verifRoot(), repoRoot()
	seed := int64(1)
	if v := os.Getenv("VERIF_SEED"); v != "" {
		if s, err := strconv.ParseInt(v, 10, 64); err == nil {
			seed = s
		}
	}
	var spec Spec
	specPath := filepath.Join(root, "harness", prop, "spec.json")
	b, err := os.ReadFile(specPath)
	if err != nil {
		fmt.Printf("INCONCLUSIVE property=%s reason=no spec: %v\n", prop, err)
		return 2
	}
	if err := json.Unmarshal(b, &spec); err != nil {
		fmt.Printf("INCONCLUSIVE property=%s reason=bad spec %s: %v\n", prop, specPath, err)
		return 2
	}
	var known KnownFile
	if kb, err := os.ReadFile(filepath.Join(root, "known_findings.json")); err == nil {
		if err := json.Unmarshal(kb, &known); err != nil {
			fmt.Printf("INCONCLUSIVE property=%s reason=bad known_findings.json: %v\n", prop, err)
			return 2
		}
	}
	workers := runtime.NumCPU()
	if v := os.Getenv("VERIF_WORKERS"); v != "" {
		fmt.Sscan(v, &workers)
	}
	out := &checkOutcome{}

	// group harnesses by package
	byDir := map[string]*pkgOverlay{}
	var overlays []*pkgOverlay
	var active []*HarnessSpec
	for i := range spec.Harnesses {
		h := &spec.Harnesses[i]
		if !inTier(h, tier) {
			continue
		}
		if only := os.Getenv("VERIF_ONLY"); only != "" && !strings.Contains(h.Name, only) {
			continue
		}
		active = append(active, h)
		po, ok := byDir[h.Pkg]
		if !ok {
			po = &pkgOverlay{Dir: h.Pkg}
			byDir[h.Pkg] = po
			overlays = append(overlays, po)
		}
		for _, f := range h.Files {
			abs := filepath.Join(root, f)
			dup := false
			for _, g := range po.Files {
				if g == abs {
					dup = true
				}
			}
			if !dup {
				po.Files = append(po.Files, abs)
			}
		}
		po.Entries = append(po.Entries, h.Entry)
	}
	for _, po := range overlays {
		name, err := packageNameOf(po.Files[0])
		if err != nil {
			fmt.Printf("INCONCLUSIVE property=%s reason=harness file: %v\n", prop, err)
			return 2
		}
		po.PkgName = name
	}
	ov, err := engineOverlay(repo, overlays)
	if err != nil {
		fmt.Printf("INCONCLUSIVE property=%s reason=%v\n", prop, err)
		return 2
	}
	var patterns []string
	for _, po := range overlays {
		patterns = append(patterns, "./"+po.Dir)
	}

	// native build runs concurrently with load + exploration
	workDir := filepath.Join(root, ".work", prop+"-"+tier+"-"+strconv.Itoa(os.Getpid()))
	defer os.RemoveAll(workDir)
	nbCh := make(chan *NativeBuild, 1)
	go func() { nbCh <- buildNative(repo, workDir, overlays) }()

	ld, err := loadProgram(repo, ov, patterns, "")
	if err != nil {
		// the tree under test does not build with the harness: the property cannot be decided
		fmt.Printf("INCONCLUSIVE property=%s reason=%v\n", prop, err)
		<-nbCh
		writeEvidence(root, prop, tier, seed, &spec, nil, out, time.Since(t0), 0, nil)
		return 2
	}
	fmt.Printf("[%s %s] loaded SSA of %d packages in %.1fs, %d workers\n", prop, tier, len(ld.prog.AllPackages()), ld.LoadTime.Seconds(), workers)

	var results []*HarnessResult
	type pending struct {
		h   *HarnessSpec
		res *HarnessResult
		g   *FailureGroup
		kf  *KnownFinding
	}
	var toReplay []pending
	blocked := map[string]string{} // harness -> witness that no path reached because assertions fail before it
	for _, h := range active {
		bud := Budgets{Instrs: 5_000_000, CallDepth: 200, Preempt: 2}
		if h.Instrs > 0 {
			bud.Instrs = h.Instrs
		}
		if h.Depth > 0 {
			bud.CallDepth = h.Depth
		}
		if v, ok := h.Preempt[tier]; ok {
			bud.Preempt = v
		}
		bud.Termination = h.Termination
		params := paramsFor(h, tier)
		qto := 10000
		if tier == "thorough" {
			qto = 60000
		}
		opts := RunOpts{Params: params, Budgets: bud, Workers: workers, TimeoutMs: qto, Seed: seed, MaxSample: 12}
		if tier == "thorough" || os.Getenv("VERIF_RECHECK") != "" {
			opts.Recheck = 6 // per worker: up to ~100 assertion queries per harness re-discharged with cvc5 and z3 5.x
		}
		if s, ok := h.MaxSeconds[tier]; ok {
			opts.Deadline = time.Now().Add(time.Duration(s) * time.Second)
		}
		res, err := runHarness(ld, h.Name, importPath(h.Pkg), h.Entry, opts)
		if err != nil {
			out.inconclusive = append(out.inconclusive, fmt.Sprintf("%s: %v", h.Name, err))
			continue
		}
		results = append(results, res)
		fmt.Printf("[%s %s] %-28s paths=%d infeasible=%d decisions=%d queries=%d (sat %d, unsat %d, cache %d, model-hit %d) solver=%.1fs wall=%.1fs failures=%d\n",
			prop, tier, h.Name, res.Paths, res.Infeasible, res.Decisions, res.Queries, res.Sat, res.Unsat, res.CacheHits, res.ModelHits,
			res.SolverTime.Seconds(), res.Wall.Seconds(), len(res.Failures))
		for _, cp := range res.CrossProblems {
			out.inconclusive = append(out.inconclusive, fmt.Sprintf("%s: cross-solver disagreement: %s", h.Name, cp))
		}
		for p, n := range res.Problems {
			if h.Termination && strings.HasPrefix(p, "TRUNCATED") && !strings.Contains(p, "exploration stopped") {
				continue // handled below as violation candidates
			}
			out.inconclusive = append(out.inconclusive, fmt.Sprintf("%s: %s (x%d) trace=%v", h.Name, p, n, res.ProblemEx[p]))
		}
		for _, w := range h.Reach {
			if res.Reached[w] == 0 {
				if len(res.Failures) > 0 {
					// every path that could have reached the witness fails an assertion first (the witness is reached
					// on a tree where the property holds): the failures block the harness - they are reported as
					// violations even where they look like a recorded finding
					blocked[h.Name] = w
					continue
				}
				out.inconclusive = append(out.inconclusive, fmt.Sprintf("%s: vacuity witness %q was never reached", h.Name, w))
			}
		}
		if res.Paths == 0 {
			out.inconclusive = append(out.inconclusive, fmt.Sprintf("%s: no feasible path (vacuous harness)", h.Name))
		}
		keys := make([]string, 0, len(res.Failures))
		for k := range res.Failures {
			keys = append(keys, k)
		}
		sort.Strings(keys)
		for _, k := range keys {
			g := res.Failures[k]
			var kf *KnownFinding
			for i := range known.Findings {
				c := &known.Findings[i]
				if c.Property == prop && c.Status == "known" && c.matches(h.Name, &g.Failure) {
					kf = c
					break
				}
			}
			if _, isBlocked := blocked[h.Name]; isBlocked {
				kf = nil
			}
			toReplay = append(toReplay, pending{h, res, g, kf})
		}
	}

	nb := <-nbCh
	for dir, e := range nb.errs {
		out.inconclusive = append(out.inconclusive, fmt.Sprintf("native build of %s failed: %s", dir, firstLines(e, 6)))
	}

	// replay every failure group natively before reporting it
	replayDir := filepath.Join(root, "replays", prop)
	os.MkdirAll(replayDir, 0o755)
	knownPrinted := map[string]bool{}
	for _, p := range toReplay {
		// a group is reported once one of its instances reproduces natively
		cands := append([]Failure{p.g.Failure}, p.g.Alts...)
		if p.kf != nil && len(cands) > 2 {
			cands = cands[:2] // a recorded finding is re-confirmed with less effort than a new alarm gets
		}
		name := fmt.Sprintf("%s-%s.json", sanitize(p.h.Name), shortHash(failureKey(&p.g.Failure)))
		path := filepath.Join(replayDir, name)
		timeout := 8 * time.Second
		ok, why := false, ""
		var f *Failure
		var mf modelFile
		for ci := range cands {
			f = &cands[ci]
			mf = modelFile{Property: prop, Harness: p.h.Name, Pkg: p.h.Pkg, Entry: p.h.Entry, Kind: f.Kind, Label: f.Label, Tags: f.Tags,
				Model: f.Model, Choices: f.Choices, Params: paramsFor(p.h, tier), Trace: f.Trace, Sched: f.Sched, SchedOrder: f.SchedOrder, Files: p.h.Files}
			if mf.Model == nil {
				mf.Model = map[string]uint64{}
			}
			writeJSON(path, mf)
			if p.h.NoNative {
				ok, why = true, "native replay not available for this harness (engine counterexample only)"
				break
			}
			r := nb.run(p.h.Pkg, p.h.Entry, path, timeout)
			ok, why = reproduces(f, r)
			if !ok && f.Sched {
				// schedule-dependent: the recorded order of scheduling points is forced natively; decisions the
				// harness cannot force (select choice, map iteration order) vary from run to run: retry
				tries := 12
				if len(f.SchedOrder) == 0 {
					tries = 100
				}
				if p.kf != nil && tries > 4 {
					tries = 4
				}
				for i := 0; i < tries && !ok; i++ {
					r = nb.run(p.h.Pkg, p.h.Entry, path, timeout)
					ok, why = reproduces(f, r)
				}
				if !ok {
					why = "schedule-dependent counterexample did not show up natively (" + why + ")"
				}
			}
			if ok {
				break
			}
		}
		mf.Native = why
		writeJSON(path, mf)
		desc := fmt.Sprintf("%s :: %s %q tags=%v (paths: %d)", p.h.Name, f.Kind, f.Label, f.Tags, p.g.Count)
		switch {
		case !ok && p.kf != nil:
			// a recorded finding (natively reproduced when it was recorded) whose schedule could not be forced
			// this time: still the recorded finding, not a new alarm and not a reason to distrust the run
			if !knownPrinted[p.kf.ID] {
				knownPrinted[p.kf.ID] = true
				line := fmt.Sprintf("KNOWN-FINDING: property=%s %s [%s] (not re-confirmed natively in this run: %s)", prop, p.kf.What, p.kf.ID, why)
				out.known = append(out.known, line)
				fmt.Println(line)
			}
		case !ok:
			out.inconclusive = append(out.inconclusive, fmt.Sprintf("counterexample did not reproduce natively: %s — %s; replay=%s", desc, why, path))
		case p.kf != nil:
			if !knownPrinted[p.kf.ID] {
				knownPrinted[p.kf.ID] = true
				line := fmt.Sprintf("KNOWN-FINDING: property=%s %s [%s]", prop, p.kf.What, p.kf.ID)
				out.known = append(out.known, line)
				fmt.Println(line)
			}
		default:
			line := fmt.Sprintf("VIOLATION property=%s replay=%s", prop, path)
			out.violations = append(out.violations, line)
			fmt.Printf("  %s\n    %s\n    model=%s choices=%v\n", desc, why, compactModel(f.Model), f.Choices)
			fmt.Println(line)
		}
	}

	// differential validation of the translator: sampled passing paths, run natively, must agree
	validated, mismatches := 0, 0
	for i, res := range results {
		h := findHarness(active, res.Name)
		if h == nil || h.NoNative {
			continue
		}
		for j, s := range res.Samples {
			if hasTag(s.Tags, "sched=yes") {
				continue // a free native run need not follow the explored schedule
			}
			mf := modelFile{Model: s.Model, Choices: s.Choices, Params: paramsFor(h, tier)}
			path := filepath.Join(workDir, fmt.Sprintf("sample-%d-%d.json", i, j))
			writeJSON(path, mf)
			r := nb.run(h.Pkg, h.Entry, path, 20*time.Second)
			if r.End == "ok" && len(r.Fails) == 0 && equalStrings(r.Obs, s.Observes) {
				validated++
			} else {
				mismatches++
				keep := filepath.Join(replayDir, fmt.Sprintf("mismatch-%s-%d.json", sanitize(h.Name), j))
				writeJSON(keep, mf)
				out.inconclusive = append(out.inconclusive, fmt.Sprintf("%s: engine and native run disagree on a sampled path (engine obs=%v, native end=%q fails=%v obs=%v panic=%q) model=%s",
					h.Name, s.Observes, r.End, r.Fails, r.Obs, r.Panic, keep))
			}
		}
	}

	wall := time.Since(t0)
	writeEvidence(root, prop, tier, seed, &spec, results, out, wall, validated, ld)
	fmt.Printf("[%s %s] done in %.1fs: %d violation(s), %d known finding(s), %d inconclusive, %d sampled paths validated natively\n",
		prop, tier, wall.Seconds(), len(out.violations), len(out.known), len(out.inconclusive), validated)
	for _, m := range out.inconclusive {
		fmt.Printf("INCONCLUSIVE property=%s reason=%s\n", prop, m)
	}
	if len(out.violations) > 0 {
		return 1
	}
	if len(out.inconclusive) > 0 {
		return 2
	}
	return 0
}

func firstLines(s string, n int) string {
	l := strings.Split(s, "\n")
	if len(l) > n {
		l = l[:n]
	}
	return strings.Join(l, " | ")
}

func sanitize(s string) string {
	return strings.Map(func(r rune) rune {
		if r >= 'a' && r <= 'z' || r >= 'A' && r <= 'Z' || r >= '0' && r <= '9' || r == '-' || r == '_' || r == '.' {
			return r
		}
		return '_'
	}, s)
}

func hasTag(tags []string, t string) bool {
	for _, x := range tags {
		if x == t {
			return true
		}
	}
	return false
}

func equalStrings(a, b []string) bool {
	if len(a) != len(b) {
		return false
	}
	for i := range a {
		if a[i] != b[i] {
			return false
		}
	}
	return true
}

func findHarness(hs []*HarnessSpec, name string) *HarnessSpec {
	for _, h := range hs {
		if h.Name == name {
			return h
		}
	}
	return nil
}

func writeJSON(path string, v interface{}) {
	b, _ := json.MarshalIndent(v, "", " ")
	os.WriteFile(path, append(b, '\n'), 0o644)
}

func compactModel(m map[string]uint64) string {
	keys := make([]string, 0, len(m))
	for k := range m {
		keys = append(keys, k)
	}
	sort.Strings(keys)
	var sb strings.Builder
	for _, k := range keys {
		fmt.Fprintf(&sb, "%s=%d ", k, int64(m[k]))
	}
	return strings.TrimSpace(sb.String())
}

func writeEvidence(root, prop, tier string, seed int64, spec *Spec, results []*HarnessResult, out *checkOutcome, wall time.Duration, validated int, ld *Loaded) {
	states, transitions, queries, assertQ, sat, unsat, infeasible := 0, 0, 0, 0, 0, 0, 0
	solverS := 0.0
	funcs := map[string]bool{}
	var samples []interface{}
	var harnessEv []map[string]interface{}
	distinct := 0
	for _, r := range results {
		states += r.Paths
		transitions += r.Decisions
		queries += r.Queries
		assertQ += r.AssertQ
		sat += r.Sat
		unsat += r.Unsat
		infeasible += r.Infeasible
		solverS += r.SolverTime.Seconds()
		for f := range r.Funcs {
			if strings.Contains(f, "hackpadfs") && !strings.Contains(f, ".verif") && !strings.Contains(f, ".Verif") {
				funcs[f] = true
			}
		}
		if r.Decisions > 0 {
			distinct += r.Paths
		}
		for i, s := range r.Samples {
			if i >= 3 {
				break
			}
			samples = append(samples, map[string]interface{}{"harness": r.Name, "decision_vector": s.Trace, "tags": s.Tags, "choices": s.Choices,
				"model": s.Model, "observations": s.Observes})
		}
		fl := []string{}
		for k, g := range r.Failures {
			fl = append(fl, fmt.Sprintf("%s (x%d)", k, g.Count))
		}
		sort.Strings(fl)
		wit := map[string]int{}
		for k, v := range r.Reached {
			wit[k] = v
		}
		harnessEv = append(harnessEv, map[string]interface{}{"harness": r.Name, "entry": r.Entry, "paths": r.Paths, "infeasible_paths": r.Infeasible,
			"decisions": r.Decisions, "scheduling_decisions": r.SchedDec, "queries": r.Queries, "sat": r.Sat, "unsat": r.Unsat, "assertion_queries": r.AssertQ,
			"cache_hits": r.CacheHits, "model_hits": r.ModelHits,
			"solver_time_s": round2(r.SolverTime.Seconds()), "wall_s": round2(r.Wall.Seconds()), "failure_groups": fl, "witnesses": wit,
			"max_instructions_on_a_path": r.MaxInstrs, "problems": r.Problems,
			"cross_solver_queries_rechecked": r.CrossChecked, "cross_solver_disagreements": r.CrossDisagree})
	}
	if len(samples) == 0 {
		samples = append(samples, "no path completed")
	}
	fl := make([]string, 0, len(funcs))
	for f := range funcs {
		fl = append(fl, f)
	}
	sort.Strings(fl)
	exhaustive := len(out.inconclusive) == 0 && len(results) > 0
	cov := map[string]interface{}{
		"states": states, "transitions": transitions, "traces_validated_against_impl": validated, "samples": samples,
		"evaluations": states + infeasible, "distinct_nontrivial": distinct,
		"rule": "a state is one feasible path of the harness explored to its end (distinct decision vector over symbolic branches, run-time checks, choices, schedules); every assertion on it is discharged by the SMT solver over all values of the symbolic inputs; non-trivial = the path took at least one decision",
		"exhaustive": exhaustive, "functions_encoded": fl, "harnesses": harnessEv,
		"queries": map[string]interface{}{"total": queries, "sat": sat, "unsat": unsat, "assertion": assertQ},
		"solver_time_s": round2(solverS), "solver": "z3 4.8.12 (z3 -in, check-sat-assuming, QF_BV terms, no set-logic)",
		"bounds": spec.Bounds, "outside_the_claim": spec.Outside, "stubs": spec.Stubs,
		"violations_reported": out.violations, "known_findings_hit": out.known, "inconclusive": out.inconclusive,
		"explanation": "bounded symbolic execution of the repository's current go/ssa (regenerated on this run) with SMT-decided assertions; counterexamples replayed natively via go test -overlay",
	}
	if ld != nil {
		cov["ssa_load_s"] = round2(ld.LoadTime.Seconds())
	}
	ev := map[string]interface{}{
		"property_id": prop, "tier": tier, "seed": seed, "level": "model_checking", "coverage": cov,
		"assumptions": spec.Assumptions, "wall_s": round2(wall.Seconds()), "violations": len(out.violations),
	}
	evDir := filepath.Join(root, "evidence")
	if v := os.Getenv("VERIF_EVIDENCE_DIR"); v != "" { // seeded-change trials keep the committed evidence untouched
		evDir = v
	} else if os.Getenv("VERIF_ONLY") != "" {
		// a run restricted to some harnesses (development) is not the check's evidence
		evDir = filepath.Join(root, ".work", "evidence-partial")
	}
	os.MkdirAll(evDir, 0o755)
	writeJSON(filepath.Join(evDir, prop+".json"), ev)
}

func round2(x float64) float64 { return float64(int(x*100+0.5)) / 100 }
