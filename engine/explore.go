package main

import (
	"fmt"
	"math/rand"
	"os"
	"os/exec"
	"path/filepath"
	"runtime/debug"
	"sort"
	"strings"
	"sync"
	"time"

	"golang.org/x/tools/go/packages"
	"golang.org/x/tools/go/ssa"
	"golang.org/x/tools/go/ssa/ssautil"
)

type Loaded struct {
	prog     *ssa.Program
	pkgs     map[string]*ssa.Package // by import path
	LoadTime time.Duration
}

// loadProgram type-checks and builds SSA for the given package patterns of the repository's
// current working tree, with overlay files injected (nothing is written into the repo).
func loadProgram(repo string, overlay map[string][]byte, patterns []string, goos string) (*Loaded, error) {
	t0 := time.Now()
	env := append(os.Environ(), "GOFLAGS=-mod=mod", "GOPROXY=off", "GOSUMDB=off", "GOTOOLCHAIN=local")
	if goos != "" {
		env = append(env, "GOOS="+goos, "CGO_ENABLED=0")
	}
	cfg := &packages.Config{Mode: packages.LoadAllSyntax, Dir: repo, Overlay: overlay, Env: env}
	pkgs, err := packages.Load(cfg, patterns...)
	if err != nil {
		return nil, fmt.Errorf("packages.Load: %v", err)
	}
	var errs []string
	packages.Visit(pkgs, nil, func(p *packages.Package) {
		for _, e := range p.Errors {
			errs = append(errs, e.Error())
		}
	})
	if len(errs) > 0 {
		if len(errs) > 12 {
			errs = errs[:12]
		}
		return nil, fmt.Errorf("the repository (with harness overlay) does not compile:\n  %s", strings.Join(errs, "\n  "))
	}
	prog, spkgs := ssautil.AllPackages(pkgs, ssa.InstantiateGenerics)
	prog.Build()
	ld := &Loaded{prog: prog, pkgs: map[string]*ssa.Package{}, LoadTime: time.Since(t0)}
	for _, sp := range spkgs {
		if sp != nil {
			ld.pkgs[sp.Pkg.Path()] = sp
		}
	}
	return ld, nil
}

type PathSample struct {
	Trace    []int64           `json:"trace"`
	Tags     []string          `json:"tags,omitempty"`
	Choices  []ChoiceRec       `json:"choices,omitempty"`
	Model    map[string]uint64 `json:"model"`
	Observes []string          `json:"observes"`
	Reached  []string          `json:"reached,omitempty"`
}

type FailureGroup struct {
	Failure
	Count int       `json:"count"`
	Alts  []Failure `json:"-"` // further instances of the same group (other paths), tried if the first does not replay
}

type HarnessResult struct {
	Name       string
	Entry      string
	Paths      int // paths explored to their end (completed or cut by a failed assertion/panic)
	Infeasible int // paths ended by an unsatisfiable assumption
	Decisions  int
	Forks      int
	SchedDec   int
	Queries    int
	Sat, Unsat int
	CacheHits  int
	ModelHits  int
	AssertQ    int
	SolverTime time.Duration
	Wall       time.Duration
	Failures   map[string]*FailureGroup
	Problems   map[string]int // UNSUPPORTED / TRUNCATED / ENGINE / solver problems -> count
	ProblemEx  map[string][]int64
	Reached    map[string]int
	Funcs      map[string]int
	Samples    []PathSample
	MaxInstrs  int
	Recheck    []recheckQuery
	CrossChecked, CrossDisagree int
	CrossProblems []string
}

type pathResult struct {
	alts    [][]int64
	status  string // done | infeasible | problem
	problem string
}

func failureKey(f *Failure) string {
	tags := append([]string{}, f.Tags...)
	sort.Strings(tags)
	return f.Kind + "|" + f.Label + "|" + strings.Join(tags, ",")
}

func (e *Engine) resetPath(prefix []int64) {
	e.prefix, e.taken, e.pc, e.newAlts = prefix, nil, nil, nil
	e.globals = map[*ssa.Global]*value{}
	e.smaps = map[*value]*mapModel{}
	e.atomvals = map[*value]*value{}
	e.clock = 0
	e.tags, e.reached, e.choices, e.observes, e.failed = nil, nil, nil, nil, nil
	e.instrs, e.depth = 0, 0
	e.osLog = nil
	e.schedTrace = nil
	e.tarScript = nil
	e.namedErrs = nil
	e.releaseBig()
	e.schedInit()
}

func (e *Engine) runPath(pkg *ssa.Package, entry *ssa.Function, prefix []int64) (res pathResult) {
	e.resetPath(prefix)
	defer e.killAll()
	defer func() {
		res.alts = e.newAlts
		r := recover()
		if r == nil {
			res.status = "done"
			return
		}
		switch r := r.(type) {
		case targetPanic:
			kind := "panic"
			if r.fatal {
				kind = "fatal"
			}
			e.failNow(kind, "PANIC: "+panicText(r), "")
			res.status = "done"
		case pathAbort:
			switch {
			case r.reason == "assume false" || r.reason == "infeasible path":
				res.status = "infeasible"
			case r.reason == "assertion failed" || r.reason == "deadlock" || r.reason == "goroutine panic":
				res.status = "done"
			case e.bud.Termination && strings.HasPrefix(r.reason, "TRUNCATED") && !strings.Contains(r.reason, "goroutines"):
				e.failNow("truncated", "the operation does not terminate within the instruction/call-depth budget", "")
				res.status = "done"
			default:
				res.status, res.problem = "problem", r.reason
			}
		case solverFailure:
			res.status, res.problem = "problem", "SOLVER "+r.msg
		case engineBug:
			res.status, res.problem = "problem", "ENGINE "+r.msg
		default:
			res.status, res.problem = "problem", fmt.Sprintf("ENGINE internal panic: %v\n%s", r, debug.Stack())
		}
	}()
	if init := pkg.Func("init"); init != nil {
		e.callFn(init, nil, nil, nil)
	}
	e.callFn(entry, nil, nil, nil)
	return
}

type workQueue struct {
	mu     sync.Mutex
	cond   *sync.Cond
	items  [][]int64
	active int
	stop   bool
}

func (q *workQueue) pop() ([]int64, bool) {
	q.mu.Lock()
	defer q.mu.Unlock()
	for len(q.items) == 0 && q.active > 0 && !q.stop {
		q.cond.Wait()
	}
	if len(q.items) == 0 || q.stop {
		return nil, false
	}
	it := q.items[len(q.items)-1]
	q.items = q.items[:len(q.items)-1]
	q.active++
	return it, true
}

func (q *workQueue) done(alts [][]int64) {
	q.mu.Lock()
	q.items = append(q.items, alts...)
	q.active--
	q.mu.Unlock()
	q.cond.Broadcast()
}

type RunOpts struct {
	Recheck   int // assertion queries per worker kept for cross-solver re-discharge
	Params    map[string]int64
	Budgets   Budgets
	Workers   int
	TimeoutMs int
	Seed      int64
	MaxSample int
	Deadline  time.Time
	MaxPaths  int
}

func runHarness(ld *Loaded, name, pkgPath, entryName string, o RunOpts) (*HarnessResult, error) {
	pkg := ld.pkgs[pkgPath]
	if pkg == nil {
		return nil, fmt.Errorf("package %s not loaded", pkgPath)
	}
	entry := pkg.Func(entryName)
	if entry == nil {
		return nil, fmt.Errorf("harness entry %s.%s not found", pkgPath, entryName)
	}
	res := &HarnessResult{Name: name, Entry: pkgPath + "." + entryName, Failures: map[string]*FailureGroup{}, Problems: map[string]int{},
		ProblemEx: map[string][]int64{}, Reached: map[string]int{}, Funcs: map[string]int{}}
	q := &workQueue{items: [][]int64{nil}}
	q.cond = sync.NewCond(&q.mu)
	var mu sync.Mutex
	var wg sync.WaitGroup
	t0 := time.Now()
	seen := 0
	for w := 0; w < o.Workers; w++ {
		wg.Add(1)
		go func(w int) {
			defer wg.Done()
			sol := NewSolver(o.TimeoutMs)
			sol.RecheckMax = o.Recheck
			defer sol.Close()
			e := NewEngine(ld.prog, sol, o.Params, o.Budgets)
			rng := rand.New(rand.NewSource(o.Seed*1000 + int64(w)))
			var samples []PathSample
			nDone := 0
			local := &HarnessResult{Failures: map[string]*FailureGroup{}, Problems: map[string]int{}, ProblemEx: map[string][]int64{}, Reached: map[string]int{}}
			for {
				prefix, ok := q.pop()
				if !ok {
					break
				}
				if len(sol.all) > 400000 {
					sol.Restart()
				}
				pr := e.runPath(pkg, entry, prefix)
				switch pr.status {
				case "done":
					local.Paths++
					nDone++
					if len(e.failed) == 0 && o.MaxSample > 0 {
						// reservoir sample of completed paths for evidence and native differential validation
						per := o.MaxSample
						var slot = -1
						if len(samples) < per {
							slot = len(samples)
							samples = append(samples, PathSample{})
						} else if j := rng.Intn(nDone); j < per {
							slot = j
						}
						if slot >= 0 {
							if s, ok := e.samplePath(); ok {
								samples[slot] = s
							} else if slot == len(samples)-1 {
								samples = samples[:slot]
							}
						}
					}
				case "infeasible":
					local.Infeasible++
				case "problem":
					key := pr.problem
					if i := strings.Index(key, "\n"); i > 0 && !strings.HasPrefix(key, "ENGINE internal") {
						key = key[:i]
					}
					local.Problems[key]++
					if _, ok := local.ProblemEx[key]; !ok {
						local.ProblemEx[key] = append([]int64{}, e.taken...)
					}
				}
				local.Decisions += len(e.taken)
				local.SchedDec += e.schedDec
				if e.instrs > local.MaxInstrs {
					local.MaxInstrs = e.instrs
				}
				for _, r := range e.reached {
					local.Reached[r]++
				}
				for i := range e.failed {
					f := e.failed[i]
					k := failureKey(&f)
					if g, ok := local.Failures[k]; ok {
						g.Count++
						if len(g.Alts) < 4 {
							g.Alts = append(g.Alts, f)
						}
					} else {
						local.Failures[k] = &FailureGroup{Failure: f, Count: 1}
					}
				}
				q.done(pr.alts)
				mu.Lock()
				seen++
				over := (o.MaxPaths > 0 && seen >= o.MaxPaths) || (!o.Deadline.IsZero() && time.Now().After(o.Deadline))
				mu.Unlock()
				if over {
					q.mu.Lock()
					if !q.stop && (len(q.items) > 0 || q.active > 0) {
						q.stop = true
						local.Problems["TRUNCATED exploration stopped by the path/time limit with work left"]++
					}
					q.mu.Unlock()
					q.cond.Broadcast()
				}
			}
			mu.Lock()
			defer mu.Unlock()
			res.Paths += local.Paths
			res.Infeasible += local.Infeasible
			res.Decisions += local.Decisions
			res.SchedDec += local.SchedDec
			res.Forks += e.Forks
			res.Queries += sol.Queries
			res.Sat += sol.Sat
			res.Unsat += sol.Unsat
			res.CacheHits += sol.CacheHits
			res.ModelHits += sol.ModelHits
			res.AssertQ += e.assertQueries
			res.SolverTime += sol.Time
			if local.MaxInstrs > res.MaxInstrs {
				res.MaxInstrs = local.MaxInstrs
			}
			for k, v := range local.Problems {
				res.Problems[k] += v
				if _, ok := res.ProblemEx[k]; !ok {
					res.ProblemEx[k] = local.ProblemEx[k]
				}
			}
			for k, v := range local.Reached {
				res.Reached[k] += v
			}
			for k, g := range local.Failures {
				if og, ok := res.Failures[k]; ok {
					og.Count += g.Count
					for _, a := range append([]Failure{g.Failure}, g.Alts...) {
						if len(og.Alts) < 6 {
							og.Alts = append(og.Alts, a)
						}
					}
				} else {
					res.Failures[k] = g
				}
			}
			for k, v := range e.funcs {
				res.Funcs[k] += v
			}
			res.Samples = append(res.Samples, samples...)
			res.Recheck = append(res.Recheck, sol.Recheck...)
			for _, er := range sol.Errors {
				res.Problems["SOLVER "+er]++
			}
		}(w)
	}
	wg.Wait()
	res.Wall = time.Since(t0)
	crossCheck(res)
	// deterministic sample order, trimmed
	sort.Slice(res.Samples, func(i, j int) bool { return fmt.Sprint(res.Samples[i].Trace) < fmt.Sprint(res.Samples[j].Trace) })
	if len(res.Samples) > o.MaxSample {
		rng := rand.New(rand.NewSource(o.Seed))
		rng.Shuffle(len(res.Samples), func(i, j int) { res.Samples[i], res.Samples[j] = res.Samples[j], res.Samples[i] })
		res.Samples = res.Samples[:o.MaxSample]
	}
	return res, nil
}

// samplePath produces a concrete instance of the just-completed path: a model of its
// path condition and the observation log evaluated under that model.
func (e *Engine) samplePath() (s PathSample, ok bool) {
	defer func() {
		if r := recover(); r != nil {
			if _, isSF := r.(solverFailure); !isSF {
				panic(r)
			}
			ok = false
		}
	}()
	m, sat := e.sol.ModelFor(e.pc)
	if !sat {
		return s, false
	}
	s = PathSample{Trace: append([]int64{}, e.taken...), Tags: append([]string{}, e.tags...), Choices: append([]ChoiceRec{}, e.choices...),
		Model: m, Reached: append([]string{}, e.reached...)}
	for _, o := range e.observes {
		s.Observes = append(s.Observes, o.Label+"="+e.renderObs(o.V))
	}
	if e.schedDec > 0 {
		s.Tags = append(s.Tags, "sched=yes")
	}
	return s, true
}

// renderObs renders an observed value under the last model exactly as the native API prints it.
func (e *Engine) renderObs(v value) string {
	switch v := v.(type) {
	case int64:
		return fmt.Sprint(v)
	case bool:
		return fmt.Sprint(v)
	case string:
		return fmt.Sprintf("%q", v)
	case *Sym:
		x := e.sol.EvalUnderModel(v)
		if v.bits == 0 {
			return fmt.Sprint(x != 0)
		}
		return fmt.Sprint(sext(x, v.bits))
	case SymStr:
		bs := make([]byte, len(v.b))
		for i, c := range v.b {
			switch c := c.(type) {
			case int64:
				bs[i] = byte(c)
			case *Sym:
				bs[i] = byte(e.sol.EvalUnderModel(c))
			}
		}
		return fmt.Sprintf("%q", string(bs))
	}
	return fmt.Sprintf("?%T", v)
}

func harnessOverlayPath(repo, pkgDir, file string) string {
	return filepath.Join(repo, pkgDir, "zz_verif_"+filepath.Base(file))
}


// crossCheck re-discharges the sampled assertion queries with two other solvers (cvc5, z3 5.x);
// any disagreement with the verdict z3 4.8.12 gave makes the run inconclusive.
func crossCheck(res *HarnessResult) {
	if len(res.Recheck) == 0 {
		return
	}
	type job struct {
		q recheckQuery
	}
	solvers := [][]string{{"cvc5", "--lang", "smt2", "--tlimit", "60000"}, {"z3-new", "-in", "-T:60"}}
	var mu sync.Mutex
	var wg sync.WaitGroup
	sem := make(chan struct{}, 16)
	for _, q := range res.Recheck {
		for _, sv := range solvers {
			wg.Add(1)
			sem <- struct{}{}
			go func(q recheckQuery, sv []string) {
				defer wg.Done()
				defer func() { <-sem }()
				cmd := exec.Command(sv[0], sv[1:]...)
				cmd.Stdin = strings.NewReader("(set-logic QF_BV)\n" + q.Script)
				out, _ := cmd.CombinedOutput()
				ans := strings.TrimSpace(string(out))
				if i := strings.Index(ans, "\n"); i >= 0 {
					ans = ans[:i]
				}
				mu.Lock()
				defer mu.Unlock()
				res.CrossChecked++
				want := "unsat"
				if q.Sat {
					want = "sat"
				}
				if ans != want {
					res.CrossDisagree++
					if len(res.CrossProblems) < 5 {
						res.CrossProblems = append(res.CrossProblems, fmt.Sprintf("%s answered %q where z3 4.8.12 answered %s", sv[0], ans, want))
					}
				}
			}(q, sv)
		}
	}
	wg.Wait()
	res.Recheck = nil
}
