package main

import (
	"os"
	"fmt"
	"go/constant"
	"go/token"
	"go/types"
	"runtime/debug"
	"strings"
	"unicode/utf8"

	"golang.org/x/tools/go/ssa"
)

// ---------- engine ----------

type Budgets struct {
	Instrs    int
	CallDepth int
	Preempt   int
	// Termination: the property under check includes termination, so a path that exhausts the
	// instruction/call-depth budget is a violation candidate (confirmed natively with a watchdog)
	Termination bool
}

type ChoiceRec struct {
	Name string `json:"name"`
	V    int    `json:"v"`
}

type ObsRec struct {
	Label string
	V     value
}

type Failure struct {
	SchedOrder []string          `json:"sched_order,omitempty"` // order in which the harness' scheduling points were passed
	Kind    string            `json:"kind"` // assert | panic | fatal | deadlock | truncated
	Label   string            `json:"label"`
	Tags    []string          `json:"tags"`
	Model   map[string]uint64 `json:"model"`
	Choices []ChoiceRec       `json:"choices"`
	Trace   []int64           `json:"trace"`
	Sched   bool              `json:"sched"` // path contains scheduling decisions
}

type fnInfo struct {
	name  string
	intr  intrinsicFunc
	skip  bool
	slots map[ssa.Value]int // value numbering of the function's parameters, free variables and instructions
}

func (fi *fnInfo) numberValues(fn *ssa.Function) {
	fi.slots = map[ssa.Value]int{}
	for _, p := range fn.Params {
		fi.slots[p] = len(fi.slots)
	}
	for _, fv := range fn.FreeVars {
		fi.slots[fv] = len(fi.slots)
	}
	for _, b := range fn.Blocks {
		for _, in := range b.Instrs {
			if v, ok := in.(ssa.Value); ok {
				fi.slots[v] = len(fi.slots)
			}
		}
	}
	if fn.Recover != nil {
		for _, in := range fn.Recover.Instrs {
			if v, ok := in.(ssa.Value); ok {
				if _, dup := fi.slots[v]; !dup {
					fi.slots[v] = len(fi.slots)
				}
			}
		}
	}
}

type Engine struct {
	bigUsed map[*value]*bigArr   // large buffers handed out on this path
	bigFree map[int][]*bigArr    // clean large buffers by capacity
	prog   *ssa.Program
	sol    *Solver
	params map[string]int64
	bud    Budgets
	fnc    map[*ssa.Function]*fnInfo
	impl   map[[2]types.Type]bool

	// per-path state
	prefix   []int64
	taken    []int64
	pc       []*Sym
	newAlts  [][]int64
	globals  map[*ssa.Global]*value
	mutexes  map[*value]*mutexModel
	onces    map[*value]bool
	oncesRunning map[*value]int
	smaps    map[*value]*mapModel
	wgs      map[*value]*wgModel
	rws      map[*value]*rwModel
	atomvals map[*value]*value
	clock    int64
	tags     []string
	reached  []string
	choices  []ChoiceRec
	observes []ObsRec
	failed   []Failure
	instrs   int
	depth    int
	schedDec int // number of scheduling decisions on this path
	faultAt  map[string]int
	osLog    []osCall
	schedTrace []string
	tarScript  []tarEntry
	namedErrs  map[string]value

	// scheduler
	gors         []*gor
	cur          *gor
	preempts     int
	killing      bool
	pendingAbort interface{}

	// cumulative
	funcs map[string]int
	Forks int
	assertQueries int
}

func NewEngine(prog *ssa.Program, sol *Solver, params map[string]int64, bud Budgets) *Engine {
	return &Engine{prog: prog, sol: sol, params: params, bud: bud,
		fnc: map[*ssa.Function]*fnInfo{}, impl: map[[2]types.Type]bool{}, funcs: map[string]int{}}
}

func (e *Engine) abort(format string, a ...interface{}) {
	panic(pathAbort{fmt.Sprintf(format, a...)})
}

func rtPanic(msg string) targetPanic { return targetPanic{v: "runtime error: " + msg} }

// ---------- symbolic helpers ----------

func (e *Engine) toSym(v value, bits int) *Sym {
	switch v := v.(type) {
	case *Sym:
		return v
	case int64:
		return e.sol.Const(bits, uint64(v))
	case bool:
		return e.sol.Bool(v)
	}
	panic(fmt.Sprintf("toSym %T", v))
}

// decide picks among alternatives given their constraints (nil = unconditional).
func (e *Engine) decide(alts []*Sym) int {
	pos := len(e.taken)
	if pos < len(e.prefix) {
		c := int(e.prefix[pos])
		e.taken = append(e.taken, int64(c))
		if c >= len(alts) {
			e.abort("ENGINE replay divergence (decision %d has %d alternatives, prefix says %d)", pos, len(alts), c)
		}
		if alts[c] != nil {
			e.pc = append(e.pc, alts[c])
		}
		return c
	}
	first := -1
	for i, a := range alts {
		if a != nil {
			if a.isFalse() {
				continue
			}
			if !a.isTrue() && !e.sol.Check(append(append([]*Sym{}, e.pc...), a)) {
				continue
			}
		}
		if first < 0 {
			first = i
		} else {
			alt := append(append([]int64{}, e.taken...), int64(i))
			e.newAlts = append(e.newAlts, alt)
			e.Forks++
		}
	}
	if first < 0 {
		e.abort("infeasible path")
	}
	e.taken = append(e.taken, int64(first))
	if alts[first] != nil {
		e.pc = append(e.pc, alts[first])
	}
	return first
}

func (e *Engine) branch(c value) bool {
	switch c := c.(type) {
	case bool:
		return c
	case *Sym:
		if c.isTrue() {
			return true
		}
		if c.isFalse() {
			return false
		}
		return e.decide([]*Sym{c, e.sol.Not(c)}) == 0
	}
	panic(fmt.Sprintf("branch on %T", c))
}

const maxConcretize = 70

// concretize returns a concrete value for an int, forking over all feasible values (bounded).
func (e *Engine) concretize(v value, bits int) int64 {
	s, ok := v.(*Sym)
	if !ok {
		return v.(int64)
	}
	if s.isConst() {
		return sext(s.cval, bits)
	}
	pos := len(e.taken)
	if pos < len(e.prefix) {
		c := e.prefix[pos]
		e.taken = append(e.taken, c)
		e.pc = append(e.pc, e.sol.Op(0, "=", s, e.sol.Const(bits, uint64(c))))
		return c
	}
	var found []int64
	lits := append([]*Sym{}, e.pc...)
	for len(found) < maxConcretize {
		if !e.sol.Check(lits) {
			break
		}
		m := e.sol.EvalUnderModel(s)
		found = append(found, sext(m, bits))
		lits = append(lits, e.sol.Not(e.sol.Op(0, "=", s, e.sol.Const(bits, m))))
	}
	if len(found) == 0 {
		e.abort("infeasible path")
	}
	if len(found) == maxConcretize {
		e.abort("UNBOUNDED concretisation of a symbolic size/index (more than %d feasible values)", maxConcretize)
	}
	for _, f := range found[1:] {
		e.newAlts = append(e.newAlts, append(append([]int64{}, e.taken...), f))
		e.Forks++
	}
	e.taken = append(e.taken, found[0])
	e.pc = append(e.pc, e.sol.Op(0, "=", s, e.sol.Const(bits, uint64(found[0]))))
	return found[0]
}

// rtCheck: a Go run-time check. If it can fail, that is a decision, and the failing side panics.
func (e *Engine) rtCheck(okCond value, msg string) {
	if !e.branch(okCond) {
		panic(rtPanic(msg))
	}
}

// ---------- frames ----------

type deferred struct {
	cc   *ssa.CallCommon
	fnv  value
	args []value
}

type frame struct {
	e         *Engine
	fn        *ssa.Function
	fi        *fnInfo
	env       []value
	set       []bool
	defers    []deferred
	prev      *ssa.BasicBlock
	panicking *targetPanic
	deferOf   *frame // non-nil if this frame is a deferred call run by deferOf
}

func (fr *frame) get(v ssa.Value) value {
	switch v := v.(type) {
	case *ssa.Const:
		return fr.e.constVal(v)
	case *ssa.Function:
		return v
	case *ssa.Builtin:
		return v
	case *ssa.Global:
		return fr.e.global(v)
	}
	i, ok := fr.fi.slots[v]
	if !ok || !fr.set[i] {
		panic(fmt.Sprintf("no value for %s in %s", v.Name(), fr.fn))
	}
	return fr.env[i]
}

func (fr *frame) put(v ssa.Value, x value) {
	i := fr.fi.slots[v]
	fr.env[i] = x
	fr.set[i] = true
}

func (e *Engine) global(v *ssa.Global) *value {
	p, ok := e.globals[v]
	if !ok {
		nv := e.zero(v.Type().(*types.Pointer).Elem())
		p = &nv
		e.globals[v] = p
	}
	return p
}

func (e *Engine) zero(t types.Type) value {
	switch t := t.Underlying().(type) {
	case *types.Basic:
		switch {
		case t.Info()&types.IsBoolean != 0:
			return false
		case t.Info()&types.IsString != 0:
			return ""
		case t.Kind() == types.UnsafePointer:
			return (*value)(nil)
		case t.Kind() == types.UntypedNil:
			return nil
		default:
			return int64(0)
		}
	case *types.Struct:
		s := make(Struct, t.NumFields())
		for i := range s {
			s[i] = e.zero(t.Field(i).Type())
		}
		return s
	case *types.Array:
		a := make(Array, t.Len())
		for i := range a {
			a[i] = e.zero(t.Elem())
		}
		return a
	case *types.Pointer:
		return (*value)(nil)
	case *types.Slice:
		return Slice{}
	case *types.Interface:
		return Iface{}
	case *types.Signature:
		return (*ssa.Function)(nil)
	case *types.Map:
		return (*Map)(nil)
	case *types.Chan:
		return (*Chan)(nil)
	case *types.Tuple:
		tp := make(Tuple, t.Len())
		for i := range tp {
			tp[i] = e.zero(t.At(i).Type())
		}
		return tp
	}
	panic(fmt.Sprintf("zero: %T %v", t, t))
}

func (e *Engine) constVal(c *ssa.Const) value {
	if c.Value == nil {
		return e.zero(c.Type())
	}
	t := c.Type().Underlying()
	if b, ok := t.(*types.Basic); ok {
		switch {
		case b.Info()&types.IsBoolean != 0:
			return constant.BoolVal(c.Value)
		case b.Info()&types.IsString != 0:
			return constant.StringVal(c.Value)
		case b.Info()&types.IsInteger != 0:
			bits, signed, _ := intInfo(c.Type())
			if signed {
				return norm(c.Int64(), bits, true)
			}
			return norm(int64(c.Uint64()), bits, false)
		}
	}
	if _, ok := t.(*types.TypeParam); ok {
		panic(pathAbort{"UNSUPPORTED const of type parameter"})
	}
	panic(pathAbort{fmt.Sprintf("UNSUPPORTED const %v : %v", c, c.Type())})
}

func (e *Engine) info(fn *ssa.Function) *fnInfo {
	fi, ok := e.fnc[fn]
	if !ok {
		fi = &fnInfo{name: fn.String()}
		fi.intr = lookupIntrinsic(fn, fi.name)
		if fi.intr == nil && fn.Name() == "init" && fn.Synthetic != "" && fn.Pkg != nil && !initAllowed(fn.Pkg.Pkg.Path()) {
			fi.skip = true
		}
		e.fnc[fn] = fi
	}
	return fi
}

func (e *Engine) call(fnv value, args []value, deferOf *frame) value {
	switch f := fnv.(type) {
	case *ssa.Function:
		if f == nil {
			panic(rtPanic("invalid memory address or nil pointer dereference (call of nil func)"))
		}
		return e.callFn(f, args, nil, deferOf)
	case *Closure:
		return e.callFn(f.fn, args, f.env, deferOf)
	case *IntrinsicFn:
		return e.callIntrinsicFn(f, args)
	}
	panic(fmt.Sprintf("call of %T", fnv))
}

func (e *Engine) callFn(fn *ssa.Function, args []value, env []value, deferOf *frame) (result value) {
	fi := e.info(fn)
	if fi.skip {
		return nil
	}
	if fi.intr != nil {
		if r, ok := fi.intr(e, fn, args); ok {
			return r
		}
	}
	if fn.Blocks == nil {
		e.abort("UNSUPPORTED external function %s", fi.name)
	}
	e.funcs[fi.name]++
	e.depth++
	if e.depth > e.bud.CallDepth {
		e.depth--
		e.abort("TRUNCATED call depth %d exceeded in %s", e.bud.CallDepth, fi.name)
	}
	if fi.slots == nil {
		fi.numberValues(fn)
	}
	fr := &frame{e: e, fn: fn, fi: fi, env: make([]value, len(fi.slots)), set: make([]bool, len(fi.slots)), deferOf: deferOf}
	for i, p := range fn.Params {
		fr.put(p, args[i])
	}
	for i, fv := range fn.FreeVars {
		fr.put(fv, env[i])
	}
	defer func() { e.depth-- }()
	return fr.run()
}

func (fr *frame) runDefers() {
	for len(fr.defers) > 0 {
		d := fr.defers[len(fr.defers)-1]
		fr.defers = fr.defers[:len(fr.defers)-1]
		fr.invoke(d.cc, d.fnv, d.args, fr)
	}
}

func (fr *frame) run() (result value) {
	defer func() {
		r := recover()
		if r == nil {
			return
		}
		tp, ok := r.(targetPanic)
		if !ok {
			switch x := r.(type) {
			case pathAbort, solverFailure:
				panic(r)
			case engineBug:
				if x.depth < 14 {
					x.msg += "\n   called from " + fr.fn.String()
					x.depth++
				}
				panic(x)
			default:
				st := string(debug.Stack())
				if i := strings.Index(st, "panic("); i >= 0 {
					st = st[i:]
				}
				if l := strings.SplitN(st, "\n", 8); len(l) == 8 {
					st = strings.Join(l[:7], "\n")
				}
				panic(engineBug{msg: fmt.Sprintf("internal panic: %v\n%s\n   in %s", r, st, fr.fn)})
			}
		}
		if tp.fatal {
			panic(tp) // Go fatal errors do not run deferred calls
		}
		fr.panicking = &tp
		fr.runDefers() // may panic again (new panic replaces the old one, as in Go)
		if fr.panicking != nil {
			panic(*fr.panicking)
		}
		// recovered: resume at the Recover block (named results) or return zero values
		result = fr.recovered()
	}()
	return fr.exec(fr.fn.Blocks[0])
}

func (fr *frame) recovered() value {
	if rb := fr.fn.Recover; rb != nil {
		return fr.exec(rb)
	}
	res := fr.fn.Signature.Results()
	switch res.Len() {
	case 0:
		return nil
	case 1:
		return fr.e.zero(res.At(0).Type())
	}
	return fr.e.zero(res)
}

func (fr *frame) exec(b *ssa.BasicBlock) value {
	e := fr.e
	for {
		var next *ssa.BasicBlock
		// parallel evaluation of the block's phi nodes
		if len(b.Instrs) > 0 {
			if _, ok := b.Instrs[0].(*ssa.Phi); ok {
				idx := -1
				for i, p := range b.Preds {
					if p == fr.prev {
						idx = i
						break
					}
				}
				var vals []value
				var phis []*ssa.Phi
				for _, in := range b.Instrs {
					phi, ok := in.(*ssa.Phi)
					if !ok {
						break
					}
					phis = append(phis, phi)
					vals = append(vals, fr.get(phi.Edges[idx]))
				}
				for i, phi := range phis {
					fr.put(phi, vals[i])
				}
			}
		}
		for _, in := range b.Instrs {
			e.instrs++
			if e.instrs > e.bud.Instrs {
				e.abort("TRUNCATED instruction budget %d exceeded in %s", e.bud.Instrs, fr.fn)
			}
			switch in := in.(type) {
			case *ssa.Jump:
				next = b.Succs[0]
			case *ssa.If:
				if e.branch(fr.get(in.Cond)) {
					next = b.Succs[0]
				} else {
					next = b.Succs[1]
				}
			case *ssa.Return:
				var res value
				switch len(in.Results) {
				case 0:
				case 1:
					res = fr.get(in.Results[0])
				default:
					t := make(Tuple, len(in.Results))
					for i, r := range in.Results {
						t[i] = fr.get(r)
					}
					res = t
				}
				return res
			case *ssa.Panic:
				panic(targetPanic{v: fr.get(in.X)})
			case *ssa.Phi:
				// phis of a block are evaluated in parallel: handled as a batch at block entry
			default:
				fr.step(in)
			}
		}
		fr.prev = b
		b = next
	}
}

func (fr *frame) step(in ssa.Instruction) {
	e := fr.e
	switch in := in.(type) {
	case *ssa.DebugRef:
	case *ssa.Alloc:
		v := e.zero(in.Type().(*types.Pointer).Elem())
		fr.put(in, &v)
	case *ssa.Store:
		switch p := fr.get(in.Addr).(type) {
		case *value:
			if p == nil {
				panic(rtPanic("invalid memory address or nil pointer dereference"))
			}
			assign(p, fr.get(in.Val))
		default:
			e.abort("UNSUPPORTED store through %T", p)
		}
	case *ssa.UnOp:
		fr.put(in, fr.unop(in))
	case *ssa.BinOp:
		fr.put(in, e.binop(in.Op, in.X.Type(), fr.get(in.X), fr.get(in.Y)))
	case *ssa.FieldAddr:
		p := fr.get(in.X).(*value)
		if p == nil {
			panic(rtPanic("invalid memory address or nil pointer dereference"))
		}
		fr.put(in, &(*p).(Struct)[in.Field])
	case *ssa.Field:
		fr.put(in, copyVal(fr.get(in.X).(Struct)[in.Field]))
	case *ssa.IndexAddr:
		x := fr.get(in.X)
		idx := fr.get(in.Index)
		switch x := x.(type) {
		case Slice:
			i := e.boundsIndex(idx, int64(x.len))
			e.touch(x.arr, x.off+int(i), x.off+int(i)+1)
			fr.put(in, &x.arr[x.off+int(i)])
		case *value:
			if x == nil {
				panic(rtPanic("invalid memory address or nil pointer dereference"))
			}
			arr := (*x).(Array)
			if sy, ok := idx.(*Sym); ok && !sy.isConst() && sy.bits <= 16 && len(arr) >= 1<<uint(sy.bits) {
				// index cannot be out of range (e.g. a byte into a [256]T table): keep it symbolic
				fr.put(in, SymPtr{arr, sy, sy.bits})
			} else {
				i := e.boundsIndex(idx, int64(len(arr)))
				fr.put(in, &arr[i])
			}
		default:
			panic(fmt.Sprintf("IndexAddr on %T", x))
		}
	case *ssa.Index:
		switch x := fr.get(in.X).(type) {
		case Array:
			i := e.boundsIndex(fr.get(in.Index), int64(len(x)))
			fr.put(in, copyVal(x[i]))
		case string:
			i := e.boundsIndex(fr.get(in.Index), int64(len(x)))
			fr.put(in, int64(x[i]))
		case SymStr:
			i := e.boundsIndex(fr.get(in.Index), int64(len(x.b)))
			fr.put(in, x.b[i])
		default:
			panic(fmt.Sprintf("Index on %T", x))
		}
	case *ssa.Slice:
		fr.put(in, fr.slice(in))
	case *ssa.MakeSlice:
		n := fr.get(in.Len)
		c := fr.get(in.Cap)
		n64 := e.widen(n, in.Len.Type())
		lenOK := e.binop(token.GEQ, types.Typ[types.Int], n64, int64(0))
		e.rtCheck(lenOK, "makeslice: len out of range")
		big := e.binop(token.LEQ, types.Typ[types.Int], n64, int64(1<<26))
		e.rtCheck(big, "makeslice: len out of range")
		ln := int(e.concretize(n64, 64))
		cp := int(e.concretize(e.widen(c, in.Cap.Type()), 64))
		if cp < ln {
			panic(rtPanic("makeslice: cap out of range"))
		}
		et := in.Type().Underlying().(*types.Slice).Elem()
		fr.put(in, e.makeSlice(et, ln, cp))
	case *ssa.MakeInterface:
		fr.put(in, Iface{in.X.Type(), copyVal(fr.get(in.X))})
	case *ssa.ChangeInterface:
		fr.put(in, fr.get(in.X))
	case *ssa.ChangeType:
		fr.put(in, fr.get(in.X))
	case *ssa.TypeAssert:
		fr.put(in, fr.typeAssert(in))
	case *ssa.Extract:
		fr.put(in, fr.get(in.Tuple).(Tuple)[in.Index])
	case *ssa.Convert:
		fr.put(in, fr.convert(in))
	case *ssa.MultiConvert:
		e.abort("UNSUPPORTED MultiConvert")
	case *ssa.SliceToArrayPointer:
		e.abort("UNSUPPORTED SliceToArrayPointer")
	case *ssa.MakeClosure:
		c := &Closure{fn: in.Fn.(*ssa.Function)}
		for _, b := range in.Bindings {
			c.env = append(c.env, fr.get(b))
		}
		fr.put(in, c)
	case *ssa.Call:
		fr.put(in, fr.doCall(in.Common()))
	case *ssa.Defer:
		cc := in.Common()
		fnv, args := fr.prepCall(cc)
		fr.defers = append(fr.defers, deferred{cc, fnv, args})
	case *ssa.RunDefers:
		fr.runDefers()
	case *ssa.Select:
		fr.put(in, fr.selectInstr(in))
	case *ssa.Go:
		cc := in.Common()
		fnv, args := fr.prepCall(cc)
		if _, ok := fnv.(*ssa.Builtin); ok {
			e.abort("UNSUPPORTED go builtin")
		}
		e.spawn(fnv, args)
	case *ssa.MakeChan:
		sz := e.concretize(e.widen(fr.get(in.Size), in.Size.Type()), 64)
		fr.put(in, &Chan{cap: int(sz), elem: in.Type().Underlying().(*types.Chan).Elem()})
	case *ssa.Send:
		e.chanSend(fr.get(in.Chan).(*Chan), fr.get(in.X))
	case *ssa.MakeMap:
		fr.put(in, &Map{m: map[interface{}]value{}})
	case *ssa.MapUpdate:
		m := fr.get(in.Map).(*Map)
		if m == nil {
			panic(targetPanic{v: "assignment to entry in nil map"})
		}
		k := e.mapKeyOf(fr.get(in.Key))
		if _, ok := m.m[k]; !ok {
			m.order = append(m.order, k)
		}
		m.m[k] = copyVal(fr.get(in.Value))
	case *ssa.Lookup:
		switch x := fr.get(in.X).(type) {
		case *Map:
			var v value
			ok := false
			if x != nil {
				v, ok = x.m[e.mapKeyOf(fr.get(in.Index))]
			}
			if !ok {
				v = e.zero(in.X.Type().Underlying().(*types.Map).Elem())
			}
			if in.CommaOk {
				fr.put(in, Tuple{copyVal(v), ok})
			} else {
				fr.put(in, copyVal(v))
			}
		case string:
			i := e.boundsIndex(fr.get(in.Index), int64(len(x)))
			fr.put(in, int64(x[i]))
		case SymStr:
			i := e.boundsIndex(fr.get(in.Index), int64(len(x.b)))
			fr.put(in, x.b[i])
		default:
			e.abort("UNSUPPORTED lookup on %T", x)
		}
	case *ssa.Range:
		switch x := fr.get(in.X).(type) {
		case *Map:
			it := &mapIter{m: x}
			if x != nil {
				it.keys = append([]interface{}{}, x.order...)
				if e.params["gomap_reverse"] != 0 {
					// Go promises no iteration order for maps: this variant iterates in reverse insertion order
					// (code whose result depends on the order differs between the two variants)
					for i, j := 0, len(it.keys)-1; i < j; i, j = i+1, j-1 {
						it.keys[i], it.keys[j] = it.keys[j], it.keys[i]
					}
				}
			}
			fr.put(in, it)
		case string:
			b, _ := strBytes(x)
			fr.put(in, &mapIter{isStr: true, str: b})
		case SymStr:
			fr.put(in, &mapIter{isStr: true, str: x.b})
		default:
			e.abort("UNSUPPORTED range over %T", x)
		}
	case *ssa.Next:
		it := fr.get(in.Iter).(*mapIter)
		if it.isStr {
			fr.put(in, e.nextRune(it))
			break
		}
		var res value = Tuple{false, nil, nil}
		for it.pos < len(it.keys) {
			k := it.keys[it.pos]
			it.pos++
			if v, ok := it.m.m[k]; ok {
				res = Tuple{true, mapKeyBack(k), copyVal(v)}
				break
			}
		}
		fr.put(in, res)
	default:
		e.abort("UNSUPPORTED instr %T %v", in, in)
	}
}

func mapKeyBack(k interface{}) value { return k }

func (e *Engine) mapKeyOf(v value) interface{} {
	if _, ok := v.(SymStr); ok {
		e.abort("UNSUPPORTED symbolic string as Go map key")
	}
	if _, ok := v.(*Sym); ok {
		return e.concretize(v, v.(*Sym).bits)
	}
	return mapKey(v)
}

func (e *Engine) nextRune(it *mapIter) value {
	if it.pos >= len(it.str) {
		return Tuple{false, int64(0), int64(0)}
	}
	start := it.pos
	// decode concretely; a symbolic byte must be ASCII-decidable
	c := it.str[it.pos]
	if sy, ok := c.(*Sym); ok {
		isASCII := e.sol.Op(0, "bvult", sy, e.sol.Const(8, 0x80))
		if !e.branch(isASCII) {
			e.abort("UNSUPPORTED range over string with symbolic non-ASCII byte")
		}
		it.pos++
		return Tuple{true, int64(start), e.sol.mk(32, "(_ zero_extend 24)", sy)}
	}
	if c.(int64) < 0x80 {
		it.pos++
		return Tuple{true, int64(start), c.(int64)}
	}
	var buf []byte
	for i := it.pos; i < len(it.str) && i < it.pos+4; i++ {
		b, ok := it.str[i].(int64)
		if !ok {
			e.abort("UNSUPPORTED range over string with symbolic non-ASCII byte")
		}
		buf = append(buf, byte(b))
	}
	r, sz := utf8.DecodeRune(buf)
	it.pos += sz
	return Tuple{true, int64(start), int64(r)}
}

// bigArr is a large buffer whose cells are recycled between paths: only the range that a path could
// have written (every address taken, every copy/append/stream read into it) is cleared again.
type bigArr struct {
	arr    []value
	lo, hi int // dirty range [lo, hi)
}

const bigArrMin = 1 << 15

// touch records that cells [lo, hi) of arr may be written.
func (e *Engine) touch(arr []value, lo, hi int) {
	if len(arr) < bigArrMin || hi <= lo {
		return
	}
	if b := e.bigUsed[&arr[0]]; b != nil {
		if b.hi == b.lo {
			b.lo, b.hi = lo, hi
			return
		}
		if lo < b.lo {
			b.lo = lo
		}
		if hi > b.hi {
			b.hi = hi
		}
	}
}

// releaseBig returns the path's large buffers to the free list (called between paths).
func (e *Engine) releaseBig() {
	for k, b := range e.bigUsed {
		for i := b.lo; i < b.hi; i++ {
			b.arr[i] = nil
		}
		if bigArrCheck {
			for i, c := range b.arr {
				if c != nil {
					panic(fmt.Sprintf("ENGINE large buffer cell %d written outside its recorded range [%d,%d)", i, b.lo, b.hi))
				}
			}
		}
		b.lo, b.hi = 0, 0
		e.bigFree[len(b.arr)] = append(e.bigFree[len(b.arr)], b)
		delete(e.bigUsed, k)
	}
}

var bigArrCheck = os.Getenv("VERIF_BIGCHECK") != ""

func (e *Engine) makeSlice(et types.Type, ln, cp int) Slice {
	if _, basic := et.Underlying().(*types.Basic); basic && cp >= bigArrMin {
		// large buffers (tar's 150 KiB / 4 MiB pools): cells stay nil, which every read treats as the zero value
		if e.bigUsed == nil {
			e.bigUsed, e.bigFree = map[*value]*bigArr{}, map[int][]*bigArr{}
		}
		var b *bigArr
		if fl := e.bigFree[cp]; len(fl) > 0 {
			b, e.bigFree[cp] = fl[len(fl)-1], fl[:len(fl)-1]
		} else {
			b = &bigArr{arr: make([]value, cp)}
		}
		e.bigUsed[&b.arr[0]] = b
		return Slice{b.arr, 0, ln, cp}
	}
	arr := make([]value, cp)
	z := e.zero(et)
	switch z.(type) {
	case Struct, Array:
		for i := range arr {
			arr[i] = e.zero(et)
		}
	default:
		for i := range arr {
			arr[i] = z
		}
	}
	return Slice{arr, 0, ln, cp}
}

func (e *Engine) widen(v value, t types.Type) value {
	sy, ok := v.(*Sym)
	if !ok || sy.bits == 64 {
		return v
	}
	_, signed, _ := intInfo(t)
	if signed {
		return e.sol.mk(64, fmt.Sprintf("(_ sign_extend %d)", 64-sy.bits), sy)
	}
	return e.sol.mk(64, fmt.Sprintf("(_ zero_extend %d)", 64-sy.bits), sy)
}

func (e *Engine) boundsIndex(idx value, n int64) int64 {
	if sy, ok := idx.(*Sym); ok && sy.bits < 64 {
		idx = e.sol.mk(64, fmt.Sprintf("(_ zero_extend %d)", 64-sy.bits), sy)
	}
	if c, ok := idx.(int64); ok {
		if c < 0 || c >= n {
			panic(rtPanic(fmt.Sprintf("index out of range [%d] with length %d", c, n)))
		}
		return c
	}
	ok1 := e.binop(token.GEQ, types.Typ[types.Int], idx, int64(0))
	e.rtCheck(ok1, "index out of range (negative)")
	ok2 := e.binop(token.LSS, types.Typ[types.Int], idx, n)
	e.rtCheck(ok2, "index out of range")
	return e.concretize(idx, 64)
}

func (fr *frame) slice(in *ssa.Slice) value {
	e := fr.e
	x := fr.get(in.X)
	var arr []value
	var off, ln, cp int
	isStr, isSym := false, false
	var symb []value
	var str string
	switch x := x.(type) {
	case Slice:
		arr, off, ln, cp = x.arr, x.off, x.len, x.cap
	case *value:
		if x == nil {
			panic(rtPanic("invalid memory address or nil pointer dereference"))
		}
		a := (*x).(Array)
		arr, off, ln, cp = a, 0, len(a), len(a)
	case string:
		isStr, str, ln, cp = true, x, len(x), len(x)
	case SymStr:
		isSym, symb, ln, cp = true, x.b, len(x.b), len(x.b)
	default:
		panic(fmt.Sprintf("slice of %T", x))
	}
	var lo, hi value = int64(0), int64(ln)
	if in.Low != nil {
		lo = e.widen(fr.get(in.Low), in.Low.Type())
	}
	if in.High != nil {
		hi = e.widen(fr.get(in.High), in.High.Type())
	}
	it := types.Typ[types.Int]
	maxv := int64(cp)
	if in.Max != nil {
		mx := e.widen(fr.get(in.Max), in.Max.Type())
		e.rtCheck(e.binop(token.GEQ, it, mx, int64(0)), "slice bounds out of range [::max<0]")
		e.rtCheck(e.binop(token.LEQ, it, mx, int64(cp)), "slice bounds out of range [::max] with capacity")
		maxv = e.concretize(mx, 64)
	}
	// Go checks: 0 <= lo <= hi <= max
	e.rtCheck(e.binop(token.GEQ, it, hi, int64(0)), "slice bounds out of range [:hi<0]")
	e.rtCheck(e.binop(token.LEQ, it, hi, maxv), "slice bounds out of range [:hi] with capacity")
	e.rtCheck(e.binop(token.GEQ, it, lo, int64(0)), "slice bounds out of range [lo<0:]")
	e.rtCheck(e.binop(token.LEQ, it, lo, hi), "slice bounds out of range [lo:hi] lo>hi")
	l := int(e.concretize(lo, 64))
	h := int(e.concretize(hi, 64))
	if isStr {
		return str[l:h]
	}
	if isSym {
		return mkStr(symb[l:h])
	}
	return Slice{arr, off + l, h - l, int(maxv) - l}
}

func (fr *frame) unop(in *ssa.UnOp) value {
	e := fr.e
	x := fr.get(in.X)
	switch in.Op {
	case token.MUL:
		if sp, ok := x.(SymPtr); ok {
			return e.selectChain(sp, in.Type())
		}
		p := x.(*value)
		if p == nil {
			panic(rtPanic("invalid memory address or nil pointer dereference"))
		}
		if *p == nil {
			return e.zero(in.Type()) // lazily zeroed cell of a large buffer
		}
		return copyVal(*p)
	case token.NOT:
		return e.not(x)
	case token.SUB:
		bits, signed, _ := intInfo(in.X.Type())
		switch x := x.(type) {
		case int64:
			return norm(-x, bits, signed)
		case *Sym:
			return e.sol.Op(bits, "bvneg", x)
		}
	case token.XOR:
		bits, signed, _ := intInfo(in.X.Type())
		switch x := x.(type) {
		case int64:
			return norm(^x, bits, signed)
		case *Sym:
			return e.sol.Op(bits, "bvnot", x)
		}
	case token.ARROW:
		v, ok := e.chanRecv(x.(*Chan))
		if in.CommaOk {
			return Tuple{v, ok}
		}
		return v
	}
	panic(fmt.Sprintf("unop %v %T", in.Op, x))
}

func (fr *frame) convert(in *ssa.Convert) value {
	e := fr.e
	x := fr.get(in.X)
	src, dst := in.X.Type().Underlying(), in.Type().Underlying()
	if sb, sSigned, ok := intInfo(src); ok {
		if db, dSigned, ok := intInfo(dst); ok {
			switch x := x.(type) {
			case int64:
				return norm(x, db, dSigned)
			case *Sym:
				switch {
				case db == sb:
					return x
				case db < sb:
					return e.sol.mk(db, fmt.Sprintf("(_ extract %d 0)", db-1), x)
				case sSigned:
					return e.sol.mk(db, fmt.Sprintf("(_ sign_extend %d)", db-sb), x)
				default:
					return e.sol.mk(db, fmt.Sprintf("(_ zero_extend %d)", db-sb), x)
				}
			}
		}
		// integer -> string (string(rune))
		if b, ok := dst.(*types.Basic); ok && b.Info()&types.IsString != 0 {
			c, ok := x.(int64)
			if !ok {
				e.abort("UNSUPPORTED string(symbolic rune)")
			}
			return string(rune(c))
		}
	}
	// string <-> []byte
	if sb, ok := strBytes(x); ok {
		if sl, ok := dst.(*types.Slice); ok {
			if eb := basicOf(sl.Elem()); eb != nil && eb.Kind() == types.Uint8 {
				arr := append([]value{}, sb...)
				return Slice{arr, 0, len(arr), len(arr)}
			}
			if eb := basicOf(sl.Elem()); eb != nil && eb.Kind() == types.Int32 {
				s, ok := x.(string)
				if !ok {
					e.abort("UNSUPPORTED []rune(symbolic string)")
				}
				rs := []rune(s)
				arr := make([]value, len(rs))
				for i, r := range rs {
					arr[i] = int64(r)
				}
				return Slice{arr, 0, len(arr), len(arr)}
			}
		}
		if b, ok := dst.(*types.Basic); ok && b.Info()&types.IsString != 0 {
			return x
		}
	}
	if sl, ok := x.(Slice); ok {
		if b, ok := dst.(*types.Basic); ok && b.Info()&types.IsString != 0 {
			return mkStr(sl.arr[sl.off : sl.off+sl.len])
		}
	}
	if _, ok := dst.(*types.Pointer); ok {
		return x
	}
	if b, ok := dst.(*types.Basic); ok && b.Kind() == types.UnsafePointer {
		return x
	}
	e.abort("UNSUPPORTED convert %v -> %v", src, dst)
	return nil
}

func (e *Engine) implements(t types.Type, it *types.Interface, itT types.Type) bool {
	k := [2]types.Type{t, itT}
	if r, ok := e.impl[k]; ok {
		return r
	}
	r := types.Implements(t, it)
	e.impl[k] = r
	return r
}

func (fr *frame) typeAssert(in *ssa.TypeAssert) value {
	x := fr.get(in.X).(Iface)
	ok := false
	var res value
	if it, isIface := in.AssertedType.Underlying().(*types.Interface); isIface {
		if x.t != nil && fr.e.implements(x.t, it, in.AssertedType) {
			ok, res = true, x
		} else {
			res = Iface{}
		}
	} else {
		if x.t != nil && types.Identical(x.t, in.AssertedType) {
			ok, res = true, x.v
		} else {
			res = fr.e.zero(in.AssertedType)
		}
	}
	if in.CommaOk {
		return Tuple{res, ok}
	}
	if !ok {
		panic(targetPanic{v: fmt.Sprintf("interface conversion: %v is not %v", x.t, in.AssertedType)})
	}
	return res
}

func (fr *frame) prepCall(cc *ssa.CallCommon) (value, []value) {
	var args []value
	var fnv value
	if cc.IsInvoke() {
		recv := fr.get(cc.Value).(Iface)
		if recv.t == nil {
			panic(rtPanic("invalid memory address or nil pointer dereference (method call on nil interface)"))
		}
		m := fr.e.prog.LookupMethod(recv.t, cc.Method.Pkg(), cc.Method.Name())
		if m == nil {
			fr.e.abort("ENGINE no method %s on %v", cc.Method.Name(), recv.t)
		}
		fnv = m
		args = append(args, recv.v)
	} else {
		fnv = fr.get(cc.Value)
	}
	for _, a := range cc.Args {
		args = append(args, fr.get(a))
	}
	return fnv, args
}

func (fr *frame) doCall(cc *ssa.CallCommon) value {
	fnv, args := fr.prepCall(cc)
	return fr.invoke(cc, fnv, args, nil)
}

func (fr *frame) invoke(cc *ssa.CallCommon, fnv value, args []value, deferOf *frame) value {
	if b, ok := fnv.(*ssa.Builtin); ok {
		return fr.builtin(b, cc, args, deferOf)
	}
	return fr.e.call(fnv, args, deferOf)
}

func (fr *frame) builtin(b *ssa.Builtin, cc *ssa.CallCommon, args []value, deferOf *frame) value {
	e := fr.e
	switch b.Name() {
	case "len":
		switch x := args[0].(type) {
		case Slice:
			return int64(x.len)
		case string:
			return int64(len(x))
		case SymStr:
			return int64(len(x.b))
		case Array:
			return int64(len(x))
		case *Map:
			if x == nil {
				return int64(0)
			}
			return int64(len(x.m))
		case *Chan:
			if x == nil {
				return int64(0)
			}
			return int64(len(x.buf))
		case *value: // pointer to array
			return int64(len((*x).(Array)))
		}
	case "cap":
		switch x := args[0].(type) {
		case Slice:
			return int64(x.cap)
		case *Chan:
			if x == nil {
				return int64(0)
			}
			return int64(x.cap)
		case Array:
			return int64(len(x))
		}
	case "delete":
		m := args[0].(*Map)
		if m == nil {
			return nil
		}
		k := e.mapKeyOf(args[1])
		if _, ok := m.m[k]; ok {
			delete(m.m, k)
			for i, o := range m.order {
				if o == k {
					m.order = append(m.order[:i:i], m.order[i+1:]...)
					break
				}
			}
		}
		return nil
	case "copy":
		dst := args[0].(Slice)
		n := dst.len
		switch src := args[1].(type) {
		case Slice:
			if src.len < n {
				n = src.len
			}
			tmp := make([]value, n)
			for i := 0; i < n; i++ {
				tmp[i] = copyVal(src.arr[src.off+i])
			}
			e.touch(dst.arr, dst.off, dst.off+n)
			copy(dst.arr[dst.off:dst.off+n], tmp)
		case string, SymStr:
			sb, _ := strBytes(src)
			if len(sb) < n {
				n = len(sb)
			}
			e.touch(dst.arr, dst.off, dst.off+n)
			for i := 0; i < n; i++ {
				dst.arr[dst.off+i] = sb[i]
			}
		}
		return int64(n)
	case "append":
		s := args[0].(Slice)
		var t Slice
		if sb, ok := strBytes(args[1]); ok {
			arr := append([]value{}, sb...)
			t = Slice{arr, 0, len(arr), len(arr)}
		} else {
			t = args[1].(Slice)
		}
		if t.len == 0 {
			return s
		}
		if s.len+t.len <= s.cap {
			e.touch(s.arr, s.off+s.len, s.off+s.len+t.len)
			for i := 0; i < t.len; i++ {
				s.arr[s.off+s.len+i] = copyVal(t.arr[t.off+i])
			}
			return Slice{s.arr, s.off, s.len + t.len, s.cap}
		}
		// growth policy is unspecified by Go; model: exact fit (cap = len)
		arr := make([]value, s.len+t.len)
		for i := 0; i < s.len; i++ {
			arr[i] = copyVal(s.arr[s.off+i])
		}
		for i := 0; i < t.len; i++ {
			arr[s.len+i] = copyVal(t.arr[t.off+i])
		}
		return Slice{arr, 0, len(arr), len(arr)}
	case "close":
		e.chanClose(args[0].(*Chan))
		return nil
	case "recover":
		// effective only when called directly by a deferred function of a panicking frame
		if fr.deferOf != nil && fr.deferOf.panicking != nil {
			tp := fr.deferOf.panicking
			fr.deferOf.panicking = nil
			if iv, ok := tp.v.(Iface); ok {
				return iv
			}
			return e.newError(fmt.Sprint(tp.v))
		}
		return Iface{}
	case "print", "println":
		return nil
	case "ssa:wrapnilchk":
		if p, ok := args[0].(*value); ok && p == nil {
			panic(rtPanic("value method called using nil pointer"))
		}
		return args[0]
	case "min", "max":
		t := cc.Args[0].Type()
		acc := args[0]
		for _, a := range args[1:] {
			var c value
			if b.Name() == "min" {
				c = e.binop(token.LSS, t, a, acc)
			} else {
				c = e.binop(token.GTR, t, a, acc)
			}
			if e.branch(c) {
				acc = a
			}
		}
		return acc
	}
	e.abort("UNSUPPORTED builtin %s(%T)", b.Name(), args[0])
	return nil
}

func (e *Engine) and(a, b value) value {
	if x, ok := a.(bool); ok {
		if !x {
			return false
		}
		return b
	}
	if y, ok := b.(bool); ok {
		if !y {
			return false
		}
		return a
	}
	return e.simp(e.sol.Op(0, "and", a.(*Sym), b.(*Sym)))
}

func (e *Engine) or(a, b value) value {
	if x, ok := a.(bool); ok {
		if x {
			return true
		}
		return b
	}
	if y, ok := b.(bool); ok {
		if y {
			return true
		}
		return a
	}
	return e.simp(e.sol.Op(0, "or", a.(*Sym), b.(*Sym)))
}

func (e *Engine) not(a value) value {
	if x, ok := a.(bool); ok {
		return !x
	}
	return e.simp(e.sol.Not(a.(*Sym)))
}

// simp turns constant terms back into Go values.
func (e *Engine) simp(s *Sym) value {
	switch s.op {
	case "true":
		return true
	case "false":
		return false
	}
	return s
}

func (e *Engine) simpInt(s *Sym, bits int, signed bool) value {
	if s.op == "const" {
		if signed {
			return sext(s.cval, bits)
		}
		return int64(s.cval)
	}
	return s
}

func (e *Engine) selectChain(sp SymPtr, t types.Type) value {
	bits, signed, ok := intInfo(t)
	if !ok {
		if st, isStruct := t.Underlying().(*types.Struct); isStruct {
			out := make(Struct, st.NumFields())
			for f := 0; f < st.NumFields(); f++ {
				cells := make([]value, len(sp.arr))
				for i, c := range sp.arr {
					cells[i] = c.(Struct)[f]
				}
				out[f] = e.selectChain(SymPtr{cells, sp.idx, sp.bits}, st.Field(f).Type())
			}
			return out
		}
		if bt := basicOf(t); bt != nil && bt.Info()&types.IsBoolean != 0 {
			bits = 0
		} else {
			e.abort("UNSUPPORTED symbolic-index load of %v", t)
		}
	}
	n := 1 << uint(sp.bits)
	if n > len(sp.arr) {
		n = len(sp.arr)
	}
	// run-length compress: consecutive equal concrete cells become one range test
	type run struct {
		lo, hi int
		v      value
	}
	var runs []run
	for i := 0; i < n; i++ {
		c := sp.arr[i]
		if len(runs) > 0 {
			last := &runs[len(runs)-1]
			switch lc := last.v.(type) {
			case int64:
				if cc, ok := c.(int64); ok && cc == lc {
					last.hi = i
					continue
				}
			case bool:
				if cc, ok := c.(bool); ok && cc == lc {
					last.hi = i
					continue
				}
			}
		}
		runs = append(runs, run{i, i, c})
	}
	acc := e.toSym(runs[len(runs)-1].v, bits)
	for i := len(runs) - 2; i >= 0; i-- {
		r := runs[i]
		var c *Sym
		if r.lo == r.hi {
			c = e.sol.Op(0, "=", sp.idx, e.sol.Const(sp.bits, uint64(r.lo)))
		} else {
			c = e.sol.Op(0, "bvule", sp.idx, e.sol.Const(sp.bits, uint64(r.hi))) // earlier runs already excluded lower values
		}
		acc = e.sol.Op(bits, "ite", c, e.toSym(r.v, bits), acc)
	}
	if bits == 0 {
		return e.simp(acc)
	}
	return e.simpInt(acc, bits, signed)
}
