package main

import (
	"fmt"
	"go/token"
	"go/types"
	"strconv"
	"strings"

	"golang.org/x/tools/go/ssa"
)

type intrinsicFunc func(e *Engine, fn *ssa.Function, args []value) (value, bool)

// intrinsics are keyed by fn.String(); verifAPI by bare function name (any package).
var intrinsics = map[string]intrinsicFunc{}
var verifAPI = map[string]intrinsicFunc{}

var initWhitelist = map[string]bool{
	"errors": true, "internal/oserror": true, "io": true, "io/fs": true, "path": true, "unicode/utf8": true,
	"syscall": false,
}

func initAllowed(path string) bool {
	return initWhitelist[path] || strings.HasPrefix(path, "github.com/hack-pad/hackpadfs")
}

func lookupIntrinsic(fn *ssa.Function, name string) intrinsicFunc {
	if f, ok := intrinsics[name]; ok {
		return f
	}
	if strings.HasPrefix(fn.Name(), "verif") && fn.Pkg != nil {
		if f, ok := verifAPI[fn.Name()]; ok {
			return f
		}
	}
	return nil
}

type mapModel struct {
	keys, vals []value
	perm       []int // iteration order chosen for the current key set (all-orders mode)
	ranges     int   // Range calls so far (syncmap_rotate)
}
type ctxObj struct {
	done     *Chan
	cancel   bool
	children []*ctxObj
}

func (e *Engine) pkgType(pkg, name string) types.Type {
	p := e.prog.ImportedPackage(pkg)
	if p == nil {
		e.abort("ENGINE package not loaded: %s", pkg)
	}
	m := p.Members[name]
	if m == nil {
		e.abort("ENGINE no member %s.%s", pkg, name)
	}
	return m.Type()
}

func (e *Engine) newError(msg string) value {
	var s value = Struct{msg}
	return Iface{types.NewPointer(e.pkgType("errors", "errorString")), &s}
}

func (e *Engine) concStr(v value, what string) string {
	s, ok := v.(string)
	if !ok {
		e.abort("ENGINE %s must be a concrete string, got %T", what, v)
	}
	return s
}

func (e *Engine) concInt(v value, what string) int64 {
	s, ok := v.(int64)
	if !ok {
		e.abort("ENGINE %s must be a concrete int, got %T", what, v)
	}
	return s
}

func panicText(tp targetPanic) string {
	switch v := tp.v.(type) {
	case string:
		return v
	case Iface:
		if v.t == nil {
			return "panic(nil)"
		}
		if p, ok := v.v.(*value); ok && p != nil {
			if st, ok := (*p).(Struct); ok && len(st) > 0 {
				if s, ok := st[0].(string); ok {
					return "panic: " + s
				}
			}
		}
		if s, ok := v.v.(string); ok {
			return "panic: " + s
		}
		return "panic: value of type " + v.t.String()
	}
	return fmt.Sprint(tp.v)
}

// fail records a failure of the current path.
func (e *Engine) failNow(kind, label, detail string) {
	f := Failure{Kind: kind, Label: label, Tags: append([]string{}, e.tags...), SchedOrder: append([]string{}, e.schedTrace...),
		Choices: append([]ChoiceRec{}, e.choices...), Trace: append([]int64{}, e.taken...), Sched: e.schedDec > 0}
	if detail != "" {
		f.Tags = append(f.Tags, "detail="+detail)
	}
	func() {
		defer func() {
			if r := recover(); r != nil {
				if _, ok := r.(solverFailure); !ok {
					panic(r)
				}
			}
		}()
		if m, ok := e.sol.ModelFor(e.pc); ok {
			f.Model = m
		}
	}()
	e.failed = append(e.failed, f)
}

func (e *Engine) input(name value, bits int) value {
	return e.sol.Input(e.concStr(name, "input name"), bits)
}

// schedPoint is a harness-level scheduling point (verifSched): a preemption opportunity whose position in
// the schedule is recorded so that the native sequencer can force the same order.
func (e *Engine) schedPoint(label string) {
	e.yieldNow()
	// goroutines started inside the library cannot be named by the harness: the native sequencer binds
	// "g<k>" to the first unidentified goroutine that arrives with the expected label
	who := "g" + strconv.Itoa(e.cur.id)
	if e.cur.labelled || e.cur.id == 0 {
		who = strconv.Itoa(e.cur.label)
	}
	e.schedTrace = append(e.schedTrace, who+":"+label)
}

func init() {
	api := func(name string, f func(e *Engine, args []value) value) {
		verifAPI[name] = func(e *Engine, fn *ssa.Function, args []value) (value, bool) { return f(e, args), true }
	}
	api("verifInt64", func(e *Engine, a []value) value { return e.input(a[0], 64) })
	api("verifInt", func(e *Engine, a []value) value { return e.input(a[0], 64) })
	api("verifUint32", func(e *Engine, a []value) value { return e.input(a[0], 32) })
	api("verifByte", func(e *Engine, a []value) value { return e.input(a[0], 8) })
	api("verifBool", func(e *Engine, a []value) value { return e.input(a[0], 0) })
	api("verifBytes", func(e *Engine, a []value) value {
		n := int(e.concretize(a[1], 64))
		name := e.concStr(a[0], "input name")
		arr := make([]value, n)
		for i := range arr {
			arr[i] = e.sol.Input(name+"["+strconv.Itoa(i)+"]", 8)
		}
		return Slice{arr, 0, n, n}
	})
	api("verifString", func(e *Engine, a []value) value {
		n := int(e.concretize(a[1], 64))
		name := e.concStr(a[0], "input name")
		b := make([]value, n)
		for i := range b {
			b[i] = e.sol.Input(name+"["+strconv.Itoa(i)+"]", 8)
		}
		if n == 0 {
			return ""
		}
		return SymStr{b}
	})
	api("verifChoice", func(e *Engine, a []value) value {
		n := int(e.concInt(a[1], "verifChoice n"))
		c := e.decide(make([]*Sym, n))
		e.choices = append(e.choices, ChoiceRec{e.concStr(a[0], "choice name"), c})
		return int64(c)
	})
	api("verifParam", func(e *Engine, a []value) value {
		name := e.concStr(a[0], "param name")
		v, ok := e.params[name]
		if !ok {
			e.abort("ENGINE harness asks for undefined parameter %q", name)
		}
		return v
	})
	api("verifName", func(e *Engine, a []value) value {
		return e.concStr(a[0], "name prefix") + strconv.FormatInt(e.concretize(a[1], 64), 10)
	})
	api("verifAssume", func(e *Engine, a []value) value {
		switch c := a[0].(type) {
		case bool:
			if !c {
				e.abort("assume false")
			}
		case *Sym:
			e.pc = append(e.pc, c)
			if len(e.taken) >= len(e.prefix) && !e.sol.Check(e.pc) {
				e.abort("assume false")
			}
		}
		return nil
	})
	api("verifAssert", func(e *Engine, a []value) value {
		label := e.concStr(a[1], "assert label")
		switch c := a[0].(type) {
		case bool:
			if !c {
				e.failNow("assert", label, "")
				e.abort("assertion failed")
			}
		case *Sym:
			neg := append(append([]*Sym{}, e.pc...), e.sol.Not(c))
			e.assertQueries++
			sat := e.sol.Check(neg)
			e.sol.keepForRecheck(neg, sat)
			if sat {
				save := e.pc
				e.pc = neg
				e.failNow("assert", label, "")
				e.pc = save
			}
			e.pc = append(e.pc, c) // continue on the passing side
			if !e.sol.Check(e.pc) {
				e.abort("assertion failed")
			}
		}
		return nil
	})
	api("verifReach", func(e *Engine, a []value) value {
		e.reached = append(e.reached, e.concStr(a[0], "reach label"))
		return nil
	})
	api("verifTag", func(e *Engine, a []value) value {
		k := e.concStr(a[0], "tag key")
		v, ok := a[1].(string)
		if !ok {
			v = "<symbolic>"
		}
		// a later tag with the same key replaces the earlier one
		for i, t := range e.tags {
			if strings.HasPrefix(t, k+"=") {
				e.tags = append(e.tags[:i:i], e.tags[i+1:]...)
				break
			}
		}
		e.tags = append(e.tags, k+"="+v)
		return nil
	})
	api("verifObserve", func(e *Engine, a []value) value {
		e.observes = append(e.observes, ObsRec{e.concStr(a[0], "observe label"), a[1]})
		return nil
	})
	api("verifObserveStr", func(e *Engine, a []value) value {
		e.observes = append(e.observes, ObsRec{e.concStr(a[0], "observe label"), a[1]})
		return nil
	})
	api("verifObserveBool", func(e *Engine, a []value) value {
		e.observes = append(e.observes, ObsRec{e.concStr(a[0], "observe label"), a[1]})
		return nil
	})
	api("verifWaitIdle", func(e *Engine, a []value) value { return int64(e.waitIdle()) })
	api("verifYield", func(e *Engine, a []value) value { e.yield(); return nil })
	api("verifGo", func(e *Engine, a []value) value {
		e.cur.label, e.cur.labelled = int(e.concInt(a[0], "goroutine label")), true
		e.yieldNow()
		// recorded when the goroutine proceeds past the point (not when it arrives): the native
		// sequencer lets goroutines pass their points in exactly this order
		e.schedTrace = append(e.schedTrace, strconv.Itoa(e.cur.label)+":start")
		return nil
	})
	api("verifGoDone", func(e *Engine, a []value) value { return nil })
	api("verifSched", func(e *Engine, a []value) value {
		e.schedPoint(e.concStr(a[0], "sched label"))
		return nil
	})
	// verifHook: scheduling points the source instrumentation inserts into library packages (replay.go)
	api("verifHook", func(e *Engine, a []value) value {
		if e.params["blob_lock_sched"] != 0 {
			e.schedPoint(e.concStr(a[0], "hook label"))
		}
		return nil
	})
	api("verifSymbolic", func(e *Engine, a []value) value { return true })
	api("verifPrint", func(e *Engine, a []value) value {
		fmt.Printf("  PRINT %v %v\n", a[0], fmtVal(a[1]))
		return nil
	})

	reg := func(name string, f func(e *Engine, args []value) value) {
		intrinsics[name] = func(e *Engine, fn *ssa.Function, args []value) (value, bool) { return f(e, args), true }
	}

	// ---- sync.Map ----
	find := func(e *Engine, m *mapModel, k value) int {
		for i, mk := range m.keys {
			if e.branch(e.ifaceEq(mk.(Iface), k.(Iface))) {
				return i
			}
		}
		return -1
	}
	reg("(*sync.Map).Load", func(e *Engine, a []value) value {
		e.yield()
		m := e.smap(a[0])
		if i := find(e, m, a[1]); i >= 0 {
			return Tuple{m.vals[i], true}
		}
		return Tuple{Iface{}, false}
	})
	reg("(*sync.Map).Store", func(e *Engine, a []value) value {
		e.yield()
		m := e.smap(a[0])
		if i := find(e, m, a[1]); i >= 0 {
			m.vals[i] = a[2]
			return nil
		}
		m.keys = append(m.keys, a[1])
		m.vals = append(m.vals, a[2])
		return nil
	})
	reg("(*sync.Map).LoadOrStore", func(e *Engine, a []value) value {
		e.yield()
		m := e.smap(a[0])
		if i := find(e, m, a[1]); i >= 0 {
			return Tuple{m.vals[i], true}
		}
		m.keys = append(m.keys, a[1])
		m.vals = append(m.vals, a[2])
		return Tuple{a[2], false}
	})
	reg("(*sync.Map).LoadAndDelete", func(e *Engine, a []value) value {
		e.yield()
		m := e.smap(a[0])
		if i := find(e, m, a[1]); i >= 0 {
			v := m.vals[i]
			m.keys = append(m.keys[:i:i], m.keys[i+1:]...)
			m.vals = append(m.vals[:i:i], m.vals[i+1:]...)
			return Tuple{v, true}
		}
		return Tuple{Iface{}, false}
	})
	reg("(*sync.Map).Delete", func(e *Engine, a []value) value {
		e.yield()
		m := e.smap(a[0])
		if i := find(e, m, a[1]); i >= 0 {
			m.keys = append(m.keys[:i:i], m.keys[i+1:]...)
			m.vals = append(m.vals[:i:i], m.vals[i+1:]...)
		}
		return nil
	})
	reg("(*sync.Map).Range", func(e *Engine, a []value) value {
		e.yield()
		m := e.smap(a[0])
		ks := append([]value{}, m.keys...)
		vs := append([]value{}, m.vals...)
		// all iteration orders only for tables of file systems (mount tables); record stores keep insertion order
		allOrders := e.params["syncmap_all_orders"] != 0 && len(vs) <= 4
		for _, v := range vs {
			iv, ok := v.(Iface)
			if !ok || iv.t == nil || !strings.HasSuffix(iv.t.String(), ".FS") {
				allOrders = false
			}
		}
		if allOrders && len(ks) > 1 && len(m.perm) != len(ks) {
			// one iteration order per run and key set (a decision); every Range then follows it
			rest := make([]int, len(ks))
			for i := range rest {
				rest[i] = i
			}
			m.perm = nil
			for len(rest) > 1 {
				e.schedDec++ // natively the order is not controllable: replays are retried
				c := e.decide(make([]*Sym, len(rest)))
				m.perm = append(m.perm, rest[c])
				rest = append(rest[:c:c], rest[c+1:]...)
			}
			m.perm = append(m.perm, rest[0])
		}
		if allOrders && len(m.perm) == len(ks) {
			pk, pv := make([]value, len(ks)), make([]value, len(ks))
			for i, j := range m.perm {
				pk[i], pv[i] = ks[j], vs[j]
			}
			ks, vs = pk, pv
		}
		if e.params["syncmap_rotate"] != 0 && len(ks) > 1 {
			// Go does not promise the same order for two iterations of one map: every second Range call of a map
			// runs in reverse order (two fixed orders instead of all n! per call); natively the order is random,
			// so a counterexample that depends on it is retried
			if m.ranges%2 == 1 {
				for i, j := 0, len(ks)-1; i < j; i, j = i+1, j-1 {
					ks[i], ks[j] = ks[j], ks[i]
					vs[i], vs[j] = vs[j], vs[i]
				}
				e.schedDec++
			}
			m.ranges++
		}
		for len(ks) > 0 {
			i := 0
			k, v := ks[i], vs[i]
			ks = append(ks[:i:i], ks[i+1:]...)
			vs = append(vs[:i:i], vs[i+1:]...)
			r := e.call(a[1], []value{k, v}, nil)
			if !e.branch(r) {
				break
			}
		}
		return nil
	})

	// ---- sync/atomic ----
	cell := func(a value) *value { return nonNilPtr(a) }
	for _, w := range []string{"Int64", "Int32", "Uint64", "Uint32", "Uintptr"} {
		w := w
		bits := 64
		if strings.HasSuffix(w, "32") {
			bits = 32
		}
		signed := strings.HasPrefix(w, "Int")
		var typ types.Type = types.Typ[types.Int64]
		switch w {
		case "Int32":
			typ = types.Typ[types.Int32]
		case "Uint64", "Uintptr":
			typ = types.Typ[types.Uint64]
		case "Uint32":
			typ = types.Typ[types.Uint32]
		}
		_ = bits
		_ = signed
		reg("sync/atomic.Load"+w, func(e *Engine, a []value) value { e.yield(); return *cell(a[0]) })
		reg("sync/atomic.Store"+w, func(e *Engine, a []value) value { e.yield(); *cell(a[0]) = a[1]; return nil })
		reg("sync/atomic.Add"+w, func(e *Engine, a []value) value {
			e.yield()
			p := cell(a[0])
			*p = e.binop(token.ADD, typ, *p, a[1])
			return *p
		})
		reg("sync/atomic.Swap"+w, func(e *Engine, a []value) value {
			e.yield()
			p := cell(a[0])
			old := *p
			*p = a[1]
			return old
		})
		reg("sync/atomic.CompareAndSwap"+w, func(e *Engine, a []value) value {
			e.yield()
			p := cell(a[0])
			if e.branch(e.binop(token.EQL, typ, *p, a[1])) {
				*p = a[2]
				return true
			}
			return false
		})
	}
	reg("(*sync/atomic.Value).Load", func(e *Engine, a []value) value {
		e.yield()
		p := cell(a[0])
		if c, ok := e.atomvals[p]; ok {
			return *c
		}
		return Iface{}
	})
	reg("(*sync/atomic.Value).Store", func(e *Engine, a []value) value {
		e.yield()
		p := cell(a[0])
		if a[1].(Iface).t == nil {
			panic(targetPanic{v: "sync/atomic: store of nil value into Value"})
		}
		v := a[1]
		e.atomvals[p] = &v
		return nil
	})

	reg("(*sync/atomic.Value).Swap", func(e *Engine, a []value) value {
		e.yield()
		p := cell(a[0])
		if a[1].(Iface).t == nil {
			panic(targetPanic{v: "sync/atomic: swap of nil value into Value"})
		}
		var old value = Iface{}
		if c, ok := e.atomvals[p]; ok {
			old = *c
		}
		v := a[1]
		e.atomvals[p] = &v
		return old
	})
	reg("(*sync/atomic.Value).CompareAndSwap", func(e *Engine, a []value) value {
		e.yield()
		p := cell(a[0])
		if a[2].(Iface).t == nil {
			panic(targetPanic{v: "sync/atomic: compare and swap of nil value into Value"})
		}
		var cur value = Iface{}
		if c, ok := e.atomvals[p]; ok {
			cur = *c
		}
		if !e.branch(e.ifaceEq(cur.(Iface), a[1].(Iface))) {
			return false
		}
		v := a[2]
		e.atomvals[p] = &v
		return true
	})

	// ---- context ----
	reg("context.Background", func(e *Engine, a []value) value { return e.ctxIface(&ctxObj{done: &Chan{elem: types.NewStruct(nil, nil)}}) })
	reg("context.TODO", func(e *Engine, a []value) value { return e.ctxIface(&ctxObj{done: &Chan{elem: types.NewStruct(nil, nil)}}) })
	reg("context.WithCancel", func(e *Engine, a []value) value {
		c := &ctxObj{done: &Chan{elem: types.NewStruct(nil, nil)}}
		pi, ok := a[0].(Iface)
		if !ok || pi.t == nil {
			panic(targetPanic{v: "cannot create context from nil parent"})
		}
		parent := e.ctxOf(pi.v)
		if parent.cancel {
			c.cancel, c.done.closed = true, true
		}
		parent.children = append(parent.children, c)
		return Tuple{e.ctxIface(c), &IntrinsicFn{"cancel", c}}
	})
	reg("(*context.cancelCtx).Done", func(e *Engine, a []value) value { return e.ctxOf(a[0]).done })
	reg("(*context.cancelCtx).Err", func(e *Engine, a []value) value {
		e.yield()
		if e.ctxOf(a[0]).cancel {
			g := e.global(e.prog.ImportedPackage("context").Var("Canceled"))
			if iv, ok := (*g).(Iface); !ok || iv.t == nil {
				*g = e.newError("context canceled") // context's own init is not run
			}
			return *g
		}
		return Iface{}
	})
	reg("(*context.cancelCtx).Value", func(e *Engine, a []value) value { return Iface{} })

	// ---- time ----
	reg("time.Now", func(e *Engine, a []value) value {
		e.clock++
		// wall=0 (no monotonic reading, nsec 0), ext = seconds since year 1, loc=nil (UTC)
		return Struct{int64(0), int64(63_800_000_000) + e.clock, (*value)(nil)}
	})
	reg("time.Since", func(e *Engine, a []value) value { return int64(0) })
	reg("time.Sleep", func(e *Engine, a []value) value { e.yield(); return nil })

	// ---- fmt / errors (formatting is never the subject) ----
	reg("fmt.Errorf", func(e *Engine, a []value) value {
		f, _ := a[0].(string)
		if strings.Contains(f, "%w") {
			// keep the wrapped error reachable through Unwrap
			sl := a[1].(Slice)
			for i := sl.len - 1; i >= 0; i-- {
				if iv, ok := sl.arr[sl.off+i].(Iface); ok && iv.t != nil {
					var s value = Struct{"fmt.Errorf:" + f, iv}
					return Iface{types.NewPointer(e.pkgType("fmt", "wrapError")), &s}
				}
			}
		}
		return e.newError("fmt.Errorf:" + f)
	})
	reg("fmt.Sprintf", func(e *Engine, a []value) value { f, _ := a[0].(string); return "fmt.Sprintf:" + f })
	reg("fmt.Sprint", func(e *Engine, a []value) value { return "fmt.Sprint" })
	reg("fmt.Sprintln", func(e *Engine, a []value) value { return "fmt.Sprintln" })
	reg("fmt.Println", func(e *Engine, a []value) value { return Tuple{int64(0), Iface{}} })
	reg("fmt.Printf", func(e *Engine, a []value) value { return Tuple{int64(0), Iface{}} })

	// ---- internal/bytealg (assembly leaves), symbolic-aware ----
	u8 := types.Typ[types.Uint8]
	indexByte := func(e *Engine, b []value, c value) value {
		for i := range b {
			if e.branch(e.binop(token.EQL, u8, b[i], c)) {
				return int64(i)
			}
		}
		return int64(-1)
	}
	sliceVals := func(v value) []value { s := v.(Slice); return s.arr[s.off : s.off+s.len] }
	reg("internal/bytealg.IndexByteString", func(e *Engine, a []value) value {
		b, _ := strBytes(a[0])
		return indexByte(e, b, a[1])
	})
	reg("internal/bytealg.IndexByte", func(e *Engine, a []value) value { return indexByte(e, sliceVals(a[0]), a[1]) })
	reg("internal/bytealg.LastIndexByteString", func(e *Engine, a []value) value {
		b, _ := strBytes(a[0])
		for i := len(b) - 1; i >= 0; i-- {
			if e.branch(e.binop(token.EQL, u8, b[i], a[1])) {
				return int64(i)
			}
		}
		return int64(-1)
	})
	reg("internal/bytealg.CountString", func(e *Engine, a []value) value {
		b, _ := strBytes(a[0])
		n := int64(0)
		for i := range b {
			if e.branch(e.binop(token.EQL, u8, b[i], a[1])) {
				n++
			}
		}
		return n
	})
	reg("internal/bytealg.Count", func(e *Engine, a []value) value {
		n := int64(0)
		for _, c := range sliceVals(a[0]) {
			if e.branch(e.binop(token.EQL, u8, c, a[1])) {
				n++
			}
		}
		return n
	})
	reg("internal/bytealg.CompareString", func(e *Engine, a []value) value {
		x, _ := strBytes(a[0])
		y, _ := strBytes(a[1])
		return int64(e.cmpStr(x, y))
	})
	reg("internal/bytealg.Compare", func(e *Engine, a []value) value { return int64(e.cmpStr(sliceVals(a[0]), sliceVals(a[1]))) })
	reg("internal/bytealg.Equal", func(e *Engine, a []value) value {
		return e.strBinop(token.EQL, mkStr(sliceVals(a[0])), mkStr(sliceVals(a[1])))
	})
	reg("internal/bytealg.IndexString", func(e *Engine, a []value) value {
		s, _ := strBytes(a[0])
		sub, _ := strBytes(a[1])
		for i := 0; i+len(sub) <= len(s); i++ {
			if e.branch(e.strBinop(token.EQL, mkStr(s[i:i+len(sub)]), mkStr(sub))) {
				return int64(i)
			}
		}
		return int64(-1)
	})
	reg("internal/bytealg.MakeNoZero", func(e *Engine, a []value) value {
		n := int(e.concretize(a[0], 64))
		return e.makeSlice(u8, n, n)
	})
	reg("strings.Index", func(e *Engine, a []value) value {
		s, _ := strBytes(a[0])
		sub, _ := strBytes(a[1])
		for i := 0; i+len(sub) <= len(s); i++ {
			if e.branch(e.strBinop(token.EQL, mkStr(s[i:i+len(sub)]), mkStr(sub))) {
				return int64(i)
			}
		}
		return int64(-1)
	})
	reg("strings.Join", func(e *Engine, a []value) value {
		sep, _ := strBytes(a[1])
		var out []value
		for i, el := range sliceVals(a[0]) {
			if i > 0 {
				out = append(out, sep...)
			}
			b, _ := strBytes(el)
			out = append(out, b...)
		}
		return mkStr(out)
	})
	reg("strings.Replace", func(e *Engine, a []value) value { return e.strReplace(a[0], a[1], a[2], a[3]) })
	reg("strings.ReplaceAll", func(e *Engine, a []value) value { return e.strReplace(a[0], a[1], a[2], int64(-1)) })
	reg("strings.Repeat", func(e *Engine, a []value) value {
		b, _ := strBytes(a[0])
		n := int(e.concretize(a[1], 64))
		if n < 0 {
			panic(targetPanic{v: "strings: negative Repeat count"})
		}
		var out []value
		for i := 0; i < n; i++ {
			out = append(out, b...)
		}
		return mkStr(out)
	})
	// strings.Builder: the real implementation uses unsafe; model it on the buf field
	reg("(*strings.Builder).WriteString", func(e *Engine, a []value) value {
		p := nonNilPtr(a[0])
		st := (*p).(Struct)
		b, _ := strBytes(a[1])
		sl := st[1].(Slice)
		arr := append(append([]value{}, sl.arr[sl.off:sl.off+sl.len]...), b...)
		st[1] = Slice{arr, 0, len(arr), len(arr)}
		return Tuple{int64(len(b)), Iface{}}
	})
	reg("(*strings.Builder).WriteByte", func(e *Engine, a []value) value {
		p := nonNilPtr(a[0])
		st := (*p).(Struct)
		sl := st[1].(Slice)
		arr := append(append([]value{}, sl.arr[sl.off:sl.off+sl.len]...), a[1])
		st[1] = Slice{arr, 0, len(arr), len(arr)}
		return Iface{}
	})
	reg("(*strings.Builder).String", func(e *Engine, a []value) value {
		st := (*nonNilPtr(a[0])).(Struct)
		sl := st[1].(Slice)
		return mkStr(sl.arr[sl.off : sl.off+sl.len])
	})
	reg("(*strings.Builder).Len", func(e *Engine, a []value) value {
		return int64((*nonNilPtr(a[0])).(Struct)[1].(Slice).len)
	})
	reg("(*strings.Builder).Grow", func(e *Engine, a []value) value { return nil })
	reg("(*strings.Builder).copyCheck", func(e *Engine, a []value) value { return nil })

	// ---- errors.As (the real one is built on reflectlite.Value, which is not modelled) ----
	reg("errors.As", func(e *Engine, a []value) value {
		err, _ := a[0].(Iface)
		tgt, _ := a[1].(Iface)
		pt, isPtr := tgt.t.(*types.Pointer)
		cell, _ := tgt.v.(*value)
		if tgt.t == nil || !isPtr || cell == nil {
			panic(targetPanic{v: "errors: target must be a non-nil pointer"})
		}
		want := pt.Elem()
		wantIface, _ := want.Underlying().(*types.Interface)
		method := func(x Iface, name string) *ssa.Function {
			ms := e.prog.MethodSets.MethodSet(x.t)
			for i := 0; i < ms.Len(); i++ {
				if ms.At(i).Obj().Name() == name {
					return e.prog.MethodValue(ms.At(i))
				}
			}
			return nil
		}
		var walk func(x Iface, depth int) bool
		walk = func(x Iface, depth int) bool {
			if depth > 32 {
				e.abort("UNSUPPORTED errors.As chain deeper than 32")
			}
			for x.t != nil {
				if wantIface != nil {
					if e.implements(x.t, wantIface, want) {
						*cell = x
						return true
					}
				} else if types.Identical(x.t, want) {
					*cell = copyVal(x.v)
					return true
				}
				if m := method(x, "As"); m != nil && m.Signature.Params().Len() == 1 && m.Signature.Results().Len() == 1 {
					if r, ok := e.callFn(m, []value{x.v, tgt}, nil, nil).(bool); ok && r {
						return true
					}
				}
				m := method(x, "Unwrap")
				if m == nil || m.Signature.Params().Len() != 0 || m.Signature.Results().Len() != 1 {
					return false
				}
				r := e.callFn(m, []value{x.v}, nil, nil)
				switch r := r.(type) {
				case Iface:
					x = r
				case Slice:
					for i := 0; i < r.len; i++ {
						if c, ok := r.arr[r.off+i].(Iface); ok && c.t != nil && walk(c, depth+1) {
							return true
						}
					}
					return false
				default:
					return false
				}
			}
			return false
		}
		return walk(err, 0)
	})

	// ---- reflectlite (only what errors.Is needs) ----
	reg("internal/reflectlite.TypeOf", func(e *Engine, a []value) value {
		return Iface{e.pkgType("internal/reflectlite", "rtype"), rtypeVal{a[0].(Iface).t}}
	})
	reg("(internal/reflectlite.rtype).Elem", func(e *Engine, a []value) value {
		t := a[0].(rtypeVal).t
		if p, ok := t.(*types.Pointer); ok {
			t = p.Elem()
		}
		return Iface{e.pkgType("internal/reflectlite", "rtype"), rtypeVal{t}}
	})
	reg("(internal/reflectlite.rtype).Comparable", func(e *Engine, a []value) value {
		t := a[0].(rtypeVal).t
		return t != nil && types.Comparable(t)
	})
	reg("runtime.Gosched", func(e *Engine, a []value) value { e.yield(); return nil })
	reg("runtime.KeepAlive", func(e *Engine, a []value) value { return nil })
	reg("runtime.SetFinalizer", func(e *Engine, a []value) value { return nil })
}

func (e *Engine) strReplace(s, old, new_, n value) value {
	sb, _ := strBytes(s)
	ob, _ := strBytes(old)
	nb, _ := strBytes(new_)
	cnt := e.concretize(n, 64)
	if len(ob) == 0 {
		if _, ok := s.(string); ok {
			return strings.Replace(s.(string), "", e.concStr(new_, "Replace new"), int(cnt))
		}
		e.abort("UNSUPPORTED strings.Replace with empty old on symbolic string")
	}
	var out []value
	i := 0
	for i < len(sb) {
		if cnt != 0 && i+len(ob) <= len(sb) && e.branch(e.strBinop(token.EQL, mkStr(sb[i:i+len(ob)]), mkStr(ob))) {
			out = append(out, nb...)
			i += len(ob)
			cnt--
			continue
		}
		out = append(out, sb[i])
		i++
	}
	return mkStr(out)
}

func (e *Engine) smap(p value) *mapModel {
	k := nonNilPtr(p)
	m, ok := e.smaps[k]
	if !ok {
		m = &mapModel{}
		e.smaps[k] = m
	}
	return m
}

func (e *Engine) ctxIface(c *ctxObj) value {
	var v value = c
	return Iface{types.NewPointer(e.pkgType("context", "cancelCtx")), &v}
}

func (e *Engine) ctxOf(v value) *ctxObj {
	p, ok := v.(*value)
	if !ok || p == nil {
		e.abort("UNSUPPORTED context value %T", v)
	}
	c, ok := (*p).(*ctxObj)
	if !ok {
		e.abort("UNSUPPORTED context implementation")
	}
	return c
}

func (e *Engine) callIntrinsicFn(f *IntrinsicFn, args []value) value {
	switch f.name {
	case "cancel":
		e.yield()
		e.cancelCtx(f.obj.(*ctxObj))
		return nil
	}
	panic(fmt.Sprintf("intrinsic fn %s", f.name))
}

func (e *Engine) cancelCtx(c *ctxObj) {
	if c.cancel {
		return
	}
	c.cancel = true
	c.done.closed = true
	e.unblock(c.done)
	for _, ch := range c.children {
		e.cancelCtx(ch)
	}
}
