package main

import (
	"encoding/json"
	"fmt"
	"os"
	"os/exec"
	"path/filepath"
	"runtime/debug"
	"runtime/pprof"
	"sort"
	"strings"
	"time"
)

func usage() {
	fmt.Fprintln(os.Stderr, `usage:
  symgo check <property> <quick|thorough>     run the registered check of a property
  symgo replay <replay.json>                  re-run a recorded counterexample natively against /repo
  symgo run <pkgdir> <Entry> <file.go>... [k=v ...]   run one harness (development)`)
	os.Exit(2)
}

func main() {
	if len(os.Args) < 2 {
		usage()
	}
	// the live heap (SSA program, hash-consed terms) is large and stable; the interpreter allocates fast
	debug.SetGCPercent(1000)
	debug.SetMemoryLimit(10 << 30)
	if pf := os.Getenv("CPUPROF"); pf != "" {
		f, _ := os.Create(pf)
		pprof.StartCPUProfile(f)
		defer pprof.StopCPUProfile()
	}
	switch os.Args[1] {
	case "check":
		if len(os.Args) < 4 {
			usage()
		}
		code := runCheck(os.Args[2], os.Args[3])
		pprof.StopCPUProfile()
		os.Exit(code)
	case "replay":
		if len(os.Args) < 3 {
			usage()
		}
		os.Exit(runReplay(os.Args[2]))
	case "run":
		code := runDev(os.Args[2:])
		pprof.StopCPUProfile()
		os.Exit(code)
	case "oraclefuzz":
		os.Exit(runOracleFuzz(os.Args[2:]))
	default:
		usage()
	}
}

// runReplay re-runs a recorded counterexample natively.
func runReplay(path string) int {
	b, err := os.ReadFile(path)
	if err != nil {
		fmt.Println(err)
		return 2
	}
	var mf modelFile
	if err := json.Unmarshal(b, &mf); err != nil {
		fmt.Println(err)
		return 2
	}
	root, repo := verifRoot(), repoRoot()
	po := &pkgOverlay{Dir: mf.Pkg, Entries: []string{mf.Entry}}
	for _, f := range mf.Files {
		po.Files = append(po.Files, filepath.Join(root, f))
	}
	// all entries of the harness files must be listed for the entries table: use only this one
	name, err := packageNameOf(po.Files[0])
	if err != nil {
		fmt.Println(err)
		return 2
	}
	po.PkgName = name
	workDir := filepath.Join(root, ".work", fmt.Sprintf("replay-%d", os.Getpid()))
	defer os.RemoveAll(workDir)
	nb := buildNative(repo, workDir, []*pkgOverlay{po})
	for d, e := range nb.errs {
		fmt.Printf("native build of %s failed: %s\n", d, e)
		return 2
	}
	abs, _ := filepath.Abs(path)
	r := nb.run(mf.Pkg, mf.Entry, abs, 30*time.Second)
	fmt.Print(r.Output)
	f := Failure{Kind: mf.Kind, Label: mf.Label}
	ok, why := reproduces(&f, r)
	if ok {
		fmt.Printf("REPRODUCED property=%s harness=%s: %s\n", mf.Property, mf.Harness, why)
		return 1
	}
	fmt.Printf("NOT REPRODUCED property=%s harness=%s: %s\n", mf.Property, mf.Harness, why)
	return 0
}

// runDev: symgo run <pkgdir> <Entry> files... k=v...
func runDev(args []string) int {
	if len(args) < 3 {
		usage()
	}
	pkgDir, entry := args[0], args[1]
	po := &pkgOverlay{Dir: pkgDir, Entries: []string{entry}}
	params := map[string]int64{}
	for _, a := range args[2:] {
		if i := strings.Index(a, "="); i > 0 && !strings.HasSuffix(a, ".go") {
			var v int64
			fmt.Sscan(a[i+1:], &v)
			params[a[:i]] = v
			continue
		}
		abs, _ := filepath.Abs(a)
		po.Files = append(po.Files, abs)
	}
	name, err := packageNameOf(po.Files[0])
	if err != nil {
		fmt.Println(err)
		return 2
	}
	po.PkgName = name
	ov, _ := engineOverlay(repoRoot(), []*pkgOverlay{po})
	ld, err := loadProgram(repoRoot(), ov, []string{"./" + pkgDir}, os.Getenv("VERIF_GOOS"))
	if err != nil {
		fmt.Println(err)
		return 2
	}
	workers := 16
	if v := os.Getenv("VERIF_WORKERS"); v != "" {
		fmt.Sscan(v, &workers)
	}
	bud := Budgets{Instrs: 5_000_000, CallDepth: 200, Preempt: 2}
	if v, ok := params["PREEMPT"]; ok {
		bud.Preempt = int(v)
	}
	maxPaths := 0
	if v := os.Getenv("VERIF_MAXPATHS"); v != "" {
		fmt.Sscan(v, &maxPaths)
	}
	res, err := runHarness(ld, entry, importPath(pkgDir), entry, RunOpts{Params: params, Budgets: bud, Workers: workers, TimeoutMs: 10000, Seed: 1, MaxSample: 3, MaxPaths: maxPaths})
	if err != nil {
		fmt.Println(err)
		return 2
	}
	fmt.Printf("load %.1fs explore %.2fs paths=%d infeasible=%d decisions=%d forks=%d queries=%d (sat %d unsat %d cache %d modelhit %d) solver %.2fs maxinstr=%d\n",
		ld.LoadTime.Seconds(), res.Wall.Seconds(), res.Paths, res.Infeasible, res.Decisions, res.Forks, res.Queries, res.Sat, res.Unsat, res.CacheHits, res.ModelHits, res.SolverTime.Seconds(), res.MaxInstrs)
	var fs []string
	for f := range res.Funcs {
		if strings.Contains(f, "hackpadfs") {
			fs = append(fs, f)
		}
	}
	sort.Strings(fs)
	if os.Getenv("VERIF_FUNCS") != "" {
		fmt.Println("functions encoded:", fs)
	}
	fmt.Println("reached:", res.Reached)
	for p, n := range res.Problems {
		fmt.Printf("PROBLEM x%d %s trace=%v\n", n, p, res.ProblemEx[p])
	}
	keys := []string{}
	for k := range res.Failures {
		keys = append(keys, k)
	}
	sort.Strings(keys)
	for _, k := range keys {
		g := res.Failures[k]
		fmt.Printf("FAIL x%-4d %-8s %-60s tags=%v model=%s choices=%v\n", g.Count, g.Kind, g.Label, g.Tags, compactModel(g.Model), g.Choices)
	}
	for _, s := range res.Samples {
		fmt.Printf("SAMPLE trace=%v obs=%v model=%s\n", s.Trace, s.Observes, compactModel(s.Model))
	}
	return 0
}

// runOracleFuzz: symgo oraclefuzz <property> <harness> <n> [k=v ...]
// Runs a harness natively with random inputs; with TARGET=1 the harness drives the reference
// implementation (the real os package), which validates the oracle model itself.
func runOracleFuzz(args []string) int {
	if len(args) < 3 {
		usage()
	}
	prop, hname := args[0], args[1]
	var n int
	fmt.Sscan(args[2], &n)
	root, repo := verifRoot(), repoRoot()
	var spec Spec
	b, err := os.ReadFile(filepath.Join(root, "harness", prop, "spec.json"))
	if err != nil {
		fmt.Println(err)
		return 2
	}
	if err := json.Unmarshal(b, &spec); err != nil {
		fmt.Println(err)
		return 2
	}
	var h *HarnessSpec
	for i := range spec.Harnesses {
		if spec.Harnesses[i].Name == hname {
			h = &spec.Harnesses[i]
		}
	}
	if h == nil {
		fmt.Println("no such harness")
		return 2
	}
	tier := "quick"
	params := paramsFor(h, tier)
	for _, a := range args[3:] {
		if i := strings.Index(a, "="); i > 0 {
			var v int64
			fmt.Sscan(a[i+1:], &v)
			params[a[:i]] = v
		}
	}
	po := &pkgOverlay{Dir: h.Pkg}
	for _, f := range h.Files {
		po.Files = append(po.Files, filepath.Join(root, f))
	}
	for i := range spec.Harnesses {
		if spec.Harnesses[i].Pkg == h.Pkg && sameFiles(spec.Harnesses[i].Files, h.Files) {
			po.Entries = append(po.Entries, spec.Harnesses[i].Entry)
		}
	}
	po.PkgName, _ = packageNameOf(po.Files[0])
	workDir := filepath.Join(root, ".work", fmt.Sprintf("fuzz-%d", os.Getpid()))
	defer os.RemoveAll(workDir)
	nb := buildNative(repo, workDir, []*pkgOverlay{po})
	for d, e := range nb.errs {
		fmt.Printf("native build of %s failed: %s\n", d, e)
		return 2
	}
	mp := filepath.Join(workDir, "params.json")
	writeJSON(mp, modelFile{Model: map[string]uint64{}, Params: params})
	cmd := exec.Command(nb.bins[h.Pkg], "-test.run", "^TestVerifFuzz$", "-test.count=1", "-test.timeout", "30m")
	cmd.Dir = filepath.Join(repo, h.Pkg)
	seed := os.Getenv("VERIF_SEED")
	if seed == "" {
		seed = "1"
	}
	cmd.Env = append(os.Environ(), "VERIF_MODEL="+mp, "VERIF_ENTRY="+h.Entry, "VERIF_FUZZ_N="+fmt.Sprint(n), "VERIF_SEED="+seed)
	out, _ := cmd.CombinedOutput()
	lines := strings.Split(string(out), "\n")
	fails := 0
	for _, l := range lines {
		if strings.HasPrefix(l, "VERIF-FUZZ") {
			fmt.Println(l)
			if strings.Contains(l, "FAIL") || strings.Contains(l, "PANIC") {
				fails++
			}
		}
	}
	if !strings.Contains(string(out), "VERIF-FUZZ: runs=") {
		fmt.Println(string(out))
		return 2
	}
	if fails > 0 {
		return 1
	}
	return 0
}

func sameFiles(a, b []string) bool {
	if len(a) != len(b) {
		return false
	}
	for i := range a {
		if a[i] != b[i] {
			return false
		}
	}
	return true
}
