package main

import (
	"fmt"
	"go/token"
	"go/types"

	"golang.org/x/tools/go/ssa"
)

func isNilFunc(v value) bool {
	if f, ok := v.(*ssa.Function); ok && f == nil {
		return true
	}
	return v == nil
}

func (e *Engine) binop(op token.Token, t types.Type, x, y value) value {
	if _, isS := x.(SymStr); isS {
		return e.strBinop(op, x, y)
	}
	if _, isS := y.(SymStr); isS {
		return e.strBinop(op, x, y)
	}
	switch xv := x.(type) {
	case string:
		yv := y.(string)
		switch op {
		case token.ADD:
			return xv + yv
		case token.EQL:
			return xv == yv
		case token.NEQ:
			return xv != yv
		case token.LSS:
			return xv < yv
		case token.LEQ:
			return xv <= yv
		case token.GTR:
			return xv > yv
		case token.GEQ:
			return xv >= yv
		}
	case *value:
		yp, _ := y.(*value)
		switch op {
		case token.EQL:
			return xv == yp
		case token.NEQ:
			return xv != yp
		}
	case Iface:
		eq := e.ifaceEq(xv, y.(Iface))
		if op == token.EQL {
			return eq
		}
		return e.not(eq)
	case Struct:
		st := t.Underlying().(*types.Struct)
		var acc value = true
		for i := range xv {
			eq := e.binop(token.EQL, st.Field(i).Type(), xv[i], y.(Struct)[i])
			acc = e.and(acc, eq)
		}
		if op == token.EQL {
			return acc
		}
		return e.not(acc)
	case Array:
		at := t.Underlying().(*types.Array)
		var acc value = true
		for i := range xv {
			acc = e.and(acc, e.binop(token.EQL, at.Elem(), xv[i], y.(Array)[i]))
		}
		if op == token.EQL {
			return acc
		}
		return e.not(acc)
	case *Map:
		isNil := xv == nil
		if ym, ok := y.(*Map); ok && ym != nil {
			isNil = false
		}
		if op == token.EQL {
			return isNil
		}
		return !isNil
	case *Chan:
		yc, _ := y.(*Chan)
		if op == token.EQL {
			return xv == yc
		}
		return xv != yc
	case Slice: // only comparison to nil
		isNil := xv.arr == nil
		if ys, ok := y.(Slice); ok && ys.arr != nil {
			isNil = false
		}
		if op == token.EQL {
			return isNil
		}
		return !isNil
	case *ssa.Function, *Closure, *IntrinsicFn:
		isNil := isNilFunc(xv) && isNilFunc(y)
		if op == token.EQL {
			return isNil
		}
		return !isNil
	case nil:
		isNil := isNilFunc(y)
		if op == token.EQL {
			return isNil
		}
		return !isNil
	}
	if bx, ok := x.(bool); ok {
		if by, ok := y.(bool); ok {
			switch op {
			case token.EQL:
				return bx == by
			case token.NEQ:
				return bx != by
			case token.AND, token.LAND:
				return bx && by
			case token.OR, token.LOR:
				return bx || by
			}
		}
	}
	bits, signed, isInt := intInfo(t)
	if !isInt {
		// symbolic bools
		sx, sy := e.toSym(x, 0), e.toSym(y, 0)
		switch op {
		case token.EQL:
			return e.simp(e.sol.Op(0, "=", sx, sy))
		case token.NEQ:
			return e.simp(e.sol.Not(e.sol.Op(0, "=", sx, sy)))
		case token.AND, token.LAND:
			return e.simp(e.sol.Op(0, "and", sx, sy))
		case token.OR, token.LOR:
			return e.simp(e.sol.Op(0, "or", sx, sy))
		}
		panic(fmt.Sprintf("binop %v on %T %T (%v)", op, x, y, t))
	}
	cx, okx := x.(int64)
	cy, oky := y.(int64)
	if okx && oky {
		return concreteBinop(op, cx, cy, bits, signed)
	}
	s := e.sol
	if op == token.SHL || op == token.SHR {
		sx := e.toSym(x, bits)
		var sc *Sym
		if cnt, ok := y.(int64); ok {
			if cnt < 0 {
				panic(rtPanic("negative shift amount"))
			}
			if cnt > int64(bits) {
				cnt = int64(bits)
			}
			sc = s.Const(bits, uint64(cnt))
		} else {
			// symbolic count: Go shifts by >= width give 0 / sign fill, which is SMT-LIB semantics too,
			// after resizing the count to the operand width (saturating)
			ys := y.(*Sym)
			switch {
			case ys.bits == bits:
				sc = ys
			case ys.bits < bits:
				sc = s.mk(bits, fmt.Sprintf("(_ zero_extend %d)", bits-ys.bits), ys)
			default:
				lowPart := s.mk(bits, fmt.Sprintf("(_ extract %d 0)", bits-1), ys)
				big := s.Op(0, "bvugt", ys, s.Const(ys.bits, uint64(bits)))
				sc = s.Op(bits, "ite", big, s.Const(bits, uint64(bits)), lowPart)
			}
		}
		var r *Sym
		switch {
		case op == token.SHL:
			r = s.Op(bits, "bvshl", sx, sc)
		case signed:
			r = s.Op(bits, "bvashr", sx, sc)
		default:
			r = s.Op(bits, "bvlshr", sx, sc)
		}
		return e.simpInt(r, bits, signed)
	}
	sx, sy := e.toSym(x, bits), e.toSym(y, bits)
	pick := func(sg, us string) string {
		if signed {
			return sg
		}
		return us
	}
	ri := func(r *Sym) value { return e.simpInt(r, bits, signed) }
	rb := func(r *Sym) value { return e.simp(r) }
	switch op {
	case token.ADD:
		return ri(s.Op(bits, "bvadd", sx, sy))
	case token.SUB:
		return ri(s.Op(bits, "bvsub", sx, sy))
	case token.MUL:
		return ri(s.Op(bits, "bvmul", sx, sy))
	case token.QUO, token.REM:
		e.rtCheck(rb(s.Not(s.Op(0, "=", sy, s.Const(bits, 0)))), "integer divide by zero")
		if op == token.QUO {
			return ri(s.Op(bits, pick("bvsdiv", "bvudiv"), sx, sy))
		}
		return ri(s.Op(bits, pick("bvsrem", "bvurem"), sx, sy))
	case token.AND:
		return ri(s.Op(bits, "bvand", sx, sy))
	case token.OR:
		return ri(s.Op(bits, "bvor", sx, sy))
	case token.XOR:
		return ri(s.Op(bits, "bvxor", sx, sy))
	case token.AND_NOT:
		return ri(s.Op(bits, "bvand", sx, s.Op(bits, "bvnot", sy)))
	case token.EQL:
		return rb(s.Op(0, "=", sx, sy))
	case token.NEQ:
		return rb(s.Not(s.Op(0, "=", sx, sy)))
	case token.LSS:
		return rb(s.Op(0, pick("bvslt", "bvult"), sx, sy))
	case token.LEQ:
		return rb(s.Op(0, pick("bvsle", "bvule"), sx, sy))
	case token.GTR:
		return rb(s.Op(0, pick("bvsgt", "bvugt"), sx, sy))
	case token.GEQ:
		return rb(s.Op(0, pick("bvsge", "bvuge"), sx, sy))
	}
	panic(fmt.Sprintf("symbolic binop %v", op))
}

func concreteBinop(op token.Token, cx, cy int64, bits int, signed bool) value {
	ux, uy := uint64(cx), uint64(cy)
	switch op {
	case token.ADD:
		return norm(cx+cy, bits, signed)
	case token.SUB:
		return norm(cx-cy, bits, signed)
	case token.MUL:
		return norm(cx*cy, bits, signed)
	case token.AND:
		return cx & cy
	case token.OR:
		return cx | cy
	case token.XOR:
		return norm(cx^cy, bits, signed)
	case token.AND_NOT:
		return cx &^ cy
	case token.SHL:
		if cy < 0 {
			panic(rtPanic("negative shift amount"))
		}
		if uy >= 64 {
			return int64(0)
		}
		return norm(int64(ux<<uy), bits, signed)
	case token.SHR:
		if cy < 0 {
			panic(rtPanic("negative shift amount"))
		}
		if signed {
			if uy >= 64 {
				uy = 63
			}
			return cx >> uy
		}
		if uy >= 64 {
			return int64(0)
		}
		return int64(ux >> uy)
	case token.QUO:
		if cy == 0 {
			panic(rtPanic("integer divide by zero"))
		}
		if signed {
			return norm(cx/cy, bits, signed)
		}
		return int64(ux / uy)
	case token.REM:
		if cy == 0 {
			panic(rtPanic("integer divide by zero"))
		}
		if signed {
			return cx % cy
		}
		return int64(ux % uy)
	case token.EQL:
		return cx == cy
	case token.NEQ:
		return cx != cy
	case token.LSS:
		if signed {
			return cx < cy
		}
		return ux < uy
	case token.LEQ:
		if signed {
			return cx <= cy
		}
		return ux <= uy
	case token.GTR:
		if signed {
			return cx > cy
		}
		return ux > uy
	case token.GEQ:
		if signed {
			return cx >= cy
		}
		return ux >= uy
	}
	panic(fmt.Sprintf("binop %v", op))
}

// ifaceEq compares two interface values; the result may be symbolic when the dynamic
// values are symbolic scalars or strings.
func (e *Engine) ifaceEq(a, b Iface) value {
	if a.t == nil || b.t == nil {
		return a.t == nil && b.t == nil
	}
	if !types.Identical(a.t, b.t) {
		return false
	}
	return e.dynEq(a.t, a.v, b.v)
}

func (e *Engine) dynEq(t types.Type, a, b value) value {
	switch av := a.(type) {
	case *value:
		bp, _ := b.(*value)
		return av == bp
	case int64, *Sym:
		if _, _, ok := intInfo(t); ok {
			return e.binop(token.EQL, t, a, b)
		}
		return e.binop(token.EQL, types.Typ[types.Bool], a, b)
	case string, SymStr:
		return e.strBinop(token.EQL, a, b)
	case bool:
		return e.binop(token.EQL, types.Typ[types.Bool], a, b)
	case Struct, Array:
		if !types.Comparable(t) {
			panic(targetPanic{v: fmt.Sprintf("runtime error: comparing uncomparable type %v", t)})
		}
		return e.binop(token.EQL, t, a, b)
	case *Chan:
		bc, _ := b.(*Chan)
		return av == bc
	case Iface:
		return e.ifaceEq(av, b.(Iface))
	case *ssa.Function, *Closure, Slice, *Map:
		panic(targetPanic{v: fmt.Sprintf("runtime error: comparing uncomparable type %v", t)})
	case rtypeVal:
		bv, ok := b.(rtypeVal)
		return ok && types.Identical(av.t, bv.t)
	}
	panic(fmt.Sprintf("dynEq %T", a))
}

func (e *Engine) strBinop(op token.Token, x, y value) value {
	xb, _ := strBytes(x)
	yb, _ := strBytes(y)
	u8 := types.Typ[types.Uint8]
	switch op {
	case token.ADD:
		return mkStr(append(append([]value{}, xb...), yb...))
	case token.EQL, token.NEQ:
		var acc value = len(xb) == len(yb)
		if len(xb) == len(yb) {
			for i := range xb {
				acc = e.and(acc, e.binop(token.EQL, u8, xb[i], yb[i]))
				if b, ok := acc.(bool); ok && !b {
					break
				}
			}
		}
		if op == token.EQL {
			return acc
		}
		return e.not(acc)
	case token.LSS, token.LEQ, token.GTR, token.GEQ:
		c := e.cmpStr(xb, yb)
		switch op {
		case token.LSS:
			return c < 0
		case token.LEQ:
			return c <= 0
		case token.GTR:
			return c > 0
		default:
			return c >= 0
		}
	}
	e.abort("UNSUPPORTED string op %v on symbolic strings", op)
	return nil
}

// cmpStr is a forking lexicographic comparison.
func (e *Engine) cmpStr(xb, yb []value) int {
	u8 := types.Typ[types.Uint8]
	n := len(xb)
	if len(yb) < n {
		n = len(yb)
	}
	for i := 0; i < n; i++ {
		if e.branch(e.binop(token.EQL, u8, xb[i], yb[i])) {
			continue
		}
		if e.branch(e.binop(token.LSS, u8, xb[i], yb[i])) {
			return -1
		}
		return 1
	}
	switch {
	case len(xb) < len(yb):
		return -1
	case len(xb) > len(yb):
		return 1
	}
	return 0
}
