package main

// OS stub: the os package is the environment of hackpadfs/os. Every os.* function and *os.File
// method records its call (function, OS path arguments) and returns an arbitrary result of the
// documented shape: success (a decision) or *PathError / *LinkError whose path is the argument and
// whose Err is a symbolic syscall.Errno. Kernel behaviour is not modelled.

import (
	"go/types"

	"golang.org/x/tools/go/ssa"
	"strings"
)

type osCall struct {
	fn   string
	args []value
}

type osFileObj struct {
	name   value
	closed bool
}

func (e *Engine) osErrno(tag string) value {
	n := len(e.osLog)
	return Iface{e.pkgType("syscall", "Errno"), e.sol.Input("os.errno."+tag+"."+itoa(n), 64)}
}

func itoa(n int) string {
	if n == 0 {
		return "0"
	}
	var b []byte
	for n > 0 {
		b = append([]byte{byte('0' + n%10)}, b...)
		n /= 10
	}
	return string(b)
}

func (e *Engine) pathError(op string, path value, err value) value {
	var s value = Struct{op, path, err}
	return Iface{types.NewPointer(e.pkgType("io/fs", "PathError")), &s}
}

func (e *Engine) linkError(op string, old, new_ value, err value) value {
	var s value = Struct{op, old, new_, err}
	return Iface{types.NewPointer(e.pkgType("os", "LinkError")), &s}
}

func (e *Engine) osSentinel(name string) value {
	p := e.prog.ImportedPackage("internal/oserror")
	return *e.global(p.Var(name))
}

// osOutcome: decision 0 = success, 1 = failure.
func (e *Engine) osFails(fn string) bool {
	if e.params["os_always_ok"] != 0 {
		return false
	}
	if e.params["os_always_fail"] != 0 {
		return true
	}
	c := e.decide(make([]*Sym, 2))
	e.choices = append(e.choices, ChoiceRec{"os:" + fn, c})
	return c == 1
}

func (e *Engine) osRecord(fn string, args ...value) {
	e.osLog = append(e.osLog, osCall{fn, args})
}

func (e *Engine) newOSFile(name value) value {
	var obj value = &osFileObj{name: name}
	return &obj
}

func (e *Engine) osFileOf(v value) *osFileObj {
	p, _ := v.(*value)
	if p == nil {
		return nil
	}
	o, _ := (*p).(*osFileObj)
	return o
}

func (e *Engine) zeroFileInfo() value {
	var st value = e.zero(e.pkgType("os", "fileStat"))
	return Iface{types.NewPointer(e.pkgType("os", "fileStat")), &st}
}

func init() {
	reg := func(name string, f func(e *Engine, a []value) value) {
		intrinsics[name] = func(e *Engine, fn *ssa.Function, args []value) (value, bool) { return f(e, args), true }
	}
	errOnly := func(fn, op string) {
		reg("os."+fn, func(e *Engine, a []value) value {
			e.osRecord(fn, a[0])
			if e.osFails(fn) {
				return e.pathError(op, a[0], e.osErrno(fn))
			}
			return Iface{}
		})
	}
	errOnly("Mkdir", "mkdir")
	errOnly("Remove", "remove")
	errOnly("Chmod", "chmod")
	errOnly("Chown", "chown")
	errOnly("Chtimes", "chtimes")
	errOnly("WriteFile", "open")
	// MkdirAll / RemoveAll may name an ancestor / descendant of the argument: the stub names the argument itself
	errOnly("MkdirAll", "mkdir")
	errOnly("RemoveAll", "unlinkat")
	open := func(fn string) {
		reg("os."+fn, func(e *Engine, a []value) value {
			e.osRecord(fn, a[0])
			if e.osFails(fn) {
				return Tuple{(*value)(nil), e.pathError("open", a[0], e.osErrno(fn))}
			}
			return Tuple{e.newOSFile(a[0]), Iface{}}
		})
	}
	open("Open")
	open("OpenFile")
	open("Create")
	stat := func(fn, op string) {
		reg("os."+fn, func(e *Engine, a []value) value {
			e.osRecord(fn, a[0])
			if e.osFails(fn) {
				return Tuple{Iface{}, e.pathError(op, a[0], e.osErrno(fn))}
			}
			return Tuple{e.zeroFileInfo(), Iface{}}
		})
	}
	stat("Stat", "stat")
	stat("Lstat", "lstat")
	reg("os.ReadDir", func(e *Engine, a []value) value {
		e.osRecord("ReadDir", a[0])
		if e.osFails("ReadDir") {
			return Tuple{Slice{}, e.pathError("open", a[0], e.osErrno("ReadDir"))}
		}
		return Tuple{Slice{}, Iface{}}
	})
	reg("os.ReadFile", func(e *Engine, a []value) value {
		e.osRecord("ReadFile", a[0])
		if e.osFails("ReadFile") {
			return Tuple{Slice{}, e.pathError("open", a[0], e.osErrno("ReadFile"))}
		}
		return Tuple{Slice{}, Iface{}}
	})
	link := func(fn, op string) {
		reg("os."+fn, func(e *Engine, a []value) value {
			e.osRecord(fn, a[0], a[1])
			if e.osFails(fn) {
				return e.linkError(op, a[0], a[1], e.osErrno(fn))
			}
			return Iface{}
		})
	}
	link("Rename", "rename")
	link("Symlink", "symlink")
	reg("os.MkdirTemp", func(e *Engine, a []value) value { return Tuple{"/tmp/verif-os-root", Iface{}} })
	reg("os.Getenv", func(e *Engine, a []value) value { return "" })

	// ---- *os.File ----
	fileMethod := func(name, op string, result func(e *Engine, ok bool, err value) value) {
		reg("(*os.File)."+name, func(e *Engine, a []value) value {
			f := e.osFileOf(a[0])
			if f == nil {
				return result(e, false, e.osSentinel("ErrInvalid"))
			}
			e.osRecord("File."+name, f.name)
			if f.closed {
				if name == "ReadDir" {
					// the real os.File.ReadDir on a closed file reports "use of closed file" (poll.ErrFileClosing),
					// which does not match ErrClosed (measured on go1.23 linux)
					return result(e, false, e.pathError("readdirent", f.name, e.newNamedError("use of closed file")))
				}
				return result(e, false, e.pathError(op, f.name, e.osSentinel("ErrClosed")))
			}
			if name == "Close" {
				f.closed = true
				return result(e, true, Iface{})
			}
			if e.osFails("File." + name) {
				return result(e, false, e.pathError(op, f.name, e.osErrno("File."+name)))
			}
			return result(e, true, Iface{})
		})
	}
	errRes := func(e *Engine, ok bool, err value) value { return err }
	nErr := func(e *Engine, ok bool, err value) value { return Tuple{int64(0), err} }
	fileMethod("Close", "close", errRes)
	fileMethod("Chmod", "chmod", errRes)
	fileMethod("Chown", "chown", errRes)
	fileMethod("Sync", "sync", errRes)
	fileMethod("Truncate", "truncate", errRes)
	fileMethod("SetDeadline", "SetDeadline", errRes)
	fileMethod("SetReadDeadline", "SetReadDeadline", errRes)
	fileMethod("SetWriteDeadline", "SetWriteDeadline", errRes)
	fileMethod("Read", "read", nErr)
	fileMethod("ReadAt", "read", nErr)
	fileMethod("Write", "write", nErr)
	fileMethod("WriteAt", "write", nErr)
	fileMethod("WriteString", "write", nErr)
	fileMethod("ReadFrom", "write", nErr)
	fileMethod("Seek", "seek", nErr)
	fileMethod("Stat", "stat", func(e *Engine, ok bool, err value) value {
		if ok {
			return Tuple{e.zeroFileInfo(), Iface{}}
		}
		return Tuple{Iface{}, err}
	})
	fileMethod("ReadDir", "readdir", func(e *Engine, ok bool, err value) value { return Tuple{Slice{}, err} })
	reg("(*os.File).Name", func(e *Engine, a []value) value {
		f := e.osFileOf(a[0])
		if f == nil {
			panic(rtPanic("invalid memory address or nil pointer dereference"))
		}
		return f.name
	})

	// harness access to the call log (engine only)
	verifAPI["verifOSCalls"] = func(e *Engine, fn *ssa.Function, a []value) (value, bool) { return int64(len(e.osLog)), true }
	verifAPI["verifOSCallArg"] = func(e *Engine, fn *ssa.Function, a []value) (value, bool) {
		i, k := int(e.concInt(a[0], "call index")), int(e.concInt(a[1], "arg index"))
		if i < 0 || i >= len(e.osLog) || k >= len(e.osLog[i].args) {
			return "", true
		}
		return e.osLog[i].args[k], true
	}
	verifAPI["verifOSCallName"] = func(e *Engine, fn *ssa.Function, a []value) (value, bool) {
		i := int(e.concInt(a[0], "call index"))
		if i < 0 || i >= len(e.osLog) {
			return "", true
		}
		return e.osLog[i].fn, true
	}
	_ = strings.HasPrefix
}
