package main

// Native replay: the harness sources are compiled with the real toolchain against the real
// repository (go test -c -overlay, nothing written into the repo); the verif* API then reads
// the solver's model from a JSON file instead of producing symbolic values.

import (
	"bytes"
	"context"
	"encoding/json"
	"fmt"
	"go/parser"
	"go/token"
	"os"
	"os/exec"
	"path/filepath"
	"regexp"
	"sort"
	"strings"
	"time"
)

const nativeAPITemplate = `package %s

import (
	"archive/tar"
	"bytes"
	"encoding/json"
	"errors"
	"fmt"
	"io"
	"math/rand"
	"os"
	"runtime"
	"strconv"
	"strings"
	"sync"
	"time"
)

// random mode (oracle validation): every input is drawn from a PRNG instead of a solver model
var verifRand *rand.Rand
var verifDrawn []string

func verifRandInt(name string, bits int) uint64 {
	var v int64
	switch verifRand.Intn(20) {
	case 0, 1, 2, 3, 4, 5, 6, 7, 8, 9, 10, 11, 12, 13:
		v = int64(verifRand.Intn(7)) - 1
	case 14, 15:
		v = int64(verifRand.Intn(9)) - 2
	case 16:
		v = int64(verifRand.Intn(40)) - 8
	case 17:
		edge := []int64{-1 << 63, -1<<63 + 1, 1<<63 - 1, 1<<63 - 2, 1 << 31, -1 << 31, 1 << 32, 1<<40 + 1, -(1 << 40), 255, 256, 511, 512, 513}
		v = edge[verifRand.Intn(len(edge))]
	default:
		v = int64(verifRand.Uint64())
	}
	if bits < 64 {
		v &= (1 << uint(bits)) - 1
	}
	verifDrawn = append(verifDrawn, name+"="+strconv.FormatInt(v, 10))
	return uint64(v)
}

func verifIn(name string, bits int) uint64 {
	if verifRand != nil {
		if v, ok := verifM.Model[name]; ok { // same name, same value within a run
			return v
		}
		v := verifRandInt(name, bits)
		verifM.Model[name] = v
		return v
	}
	return verifM.Model[name]
}

type verifModelT struct {
	Model   map[string]uint64
	Choices []struct {
		Name string
		V    int
	}
	Params map[string]int64
	SchedOrder []string
}

type verifStop struct{ label string }
type verifAssumeViolated struct{}

var verifM verifModelT
var verifChoicePos int

func verifLoad() {
	b, err := os.ReadFile(os.Getenv("VERIF_MODEL"))
	if err != nil {
		panic(err)
	}
	if err := json.Unmarshal(b, &verifM); err != nil {
		panic(err)
	}
}

func verifInt64(name string) int64   { return int64(verifIn(name, 64)) }
func verifInt(name string) int       { return int(int64(verifIn(name, 64))) }
func verifUint32(name string) uint32 { return uint32(verifIn(name, 32)) }
func verifByte(name string) byte     { return byte(verifIn(name, 8)) }
func verifBool(name string) bool     { return verifIn(name, 1)&1 != 0 }
func verifBytes(name string, n int) []byte {
	b := make([]byte, n)
	for i := range b {
		b[i] = byte(verifIn(name+"["+strconv.Itoa(i)+"]", 8))
	}
	return b
}
func verifString(name string, n int) string { return string(verifBytes(name, n)) }
func verifChoice(name string, n int) int {
	if verifRand != nil {
		c := verifRand.Intn(n)
		verifDrawn = append(verifDrawn, name+":="+strconv.Itoa(c))
		return c
	}
	if verifChoicePos >= len(verifM.Choices) {
		panic("verifChoice: replay file has no more choices (wanted " + name + ")")
	}
	c := verifM.Choices[verifChoicePos]
	verifChoicePos++
	if c.Name != name {
		panic("verifChoice: replay file has choice " + c.Name + " where the harness asks for " + name)
	}
	return c.V
}
func verifParam(name string) int {
	v, ok := verifM.Params[name]
	if !ok {
		panic("verifParam: undefined " + name)
	}
	return int(v)
}
func verifName(prefix string, i int) string { return prefix + strconv.Itoa(i) }
func verifAssume(c bool) {
	if !c {
		panic(verifAssumeViolated{})
	}
}
func verifAssert(c bool, label string) {
	if !c {
		if verifRand == nil {
			fmt.Println("VERIF-FAIL: " + label)
		}
		panic(verifStop{label})
	}
}

// verifFuzzEntry runs a harness n times with random inputs (oracle validation against a reference
// implementation selected by the harness through verifParam).
func verifFuzzEntry(entry string, n int, seed int64) {
	verifLoad()
	f, ok := verifEntries[entry]
	if !ok {
		panic("unknown harness entry " + entry)
	}
	params := verifM.Params
	verifRand = rand.New(rand.NewSource(seed))
	valid, rejected, fails := 0, 0, 0
	failLabels := map[string]int{}
	for i := 0; i < n; i++ {
		verifM = verifModelT{Model: map[string]uint64{}, Params: params}
		verifDrawn = nil
		func() {
			defer func() {
				switch r := recover().(type) {
				case nil:
					valid++
				case verifStop:
					fails++
					failLabels[r.label]++
					if failLabels[r.label] <= 2 {
						fmt.Printf("VERIF-FUZZ-FAIL: %%s inputs=%%v\n", r.label, verifDrawn)
					}
				case verifAssumeViolated:
					rejected++
				default:
					fails++
					fmt.Printf("VERIF-FUZZ-PANIC: %%v inputs=%%v\n", r, verifDrawn)
				}
			}()
			f()
		}()
	}
	fmt.Printf("VERIF-FUZZ: runs=%%d valid=%%d rejected=%%d fails=%%d\n", n, valid, rejected, fails)
}
func verifReach(label string)            {}
func verifTag(k, v string)               {}
func verifObserve(label string, v int64) { fmt.Printf("VERIF-OBS: %%s=%%d\n", label, v) }
func verifObserveStr(label, v string)    { fmt.Printf("VERIF-OBS: %%s=%%q\n", label, v) }
func verifObserveBool(label string, v bool) {
	fmt.Printf("VERIF-OBS: %%s=%%v\n", label, v)
}
func verifWaitIdle() int {
	// natively: give the other goroutines time to finish or block
	for i := 0; i < 20; i++ {
		runtime.Gosched()
		time.Sleep(2 * time.Millisecond)
	}
	return -1
}
func verifYield()         { runtime.Gosched() }

// ---- native schedule forcing: the harness' scheduling points are passed in the recorded order ----

var (
	verifSchedMu      sync.Mutex
	verifSchedCond    = sync.NewCond(&verifSchedMu)
	verifSchedPos     int
	verifSchedBroken  bool
	verifSchedRunner  = 1 << 30 // id of the goroutine that passed the last point (none yet)
	verifSchedArrived = true // that goroutine has reached its next point (or finished)
	verifSchedLast    time.Time
	verifGoLabels     sync.Map // goroutine id -> logical id
)

func verifGoid() string {
	var buf [64]byte
	n := runtime.Stack(buf[:], false)
	f := strings.Fields(string(buf[:n]))
	if len(f) > 1 {
		return f[1]
	}
	return "?"
}

var verifMainGoid string

func verifMyLabel() int {
	id := verifGoid()
	if v, ok := verifGoLabels.Load(id); ok {
		return v.(int)
	}
	if id == verifMainGoid {
		return 0
	}
	return -1 // a goroutine started inside the library
}

func verifLabelStr(l int) string {
	if l < 0 {
		return "?"
	}
	return strconv.Itoa(l)
}

func verifGo(i int) {
	verifGoLabels.Store(verifGoid(), i)
	verifSchedAt(strconv.Itoa(i) + ":start")
}

func verifGoDone() {
	me := verifMyLabel()
	verifSchedMu.Lock()
	if verifSchedRunner == me {
		verifSchedArrived = true
	}
	verifSchedCond.Broadcast()
	verifSchedMu.Unlock()
}

func verifSched(label string) { verifSchedAt(verifLabelStr(verifMyLabel()) + ":" + label) }

// binding of the engine's goroutine numbers (g<k>) to native goroutines that the harness did not name
var verifBound = map[string]int{} // "g<k>" -> sequencer id
var verifBoundRev = map[int]string{}

// verifSchedMatch: may the goroutine 'me' that arrived with 'key' ("<who>:<label>") pass the point 'want'?
func verifSchedMatch(want, key string, me int) bool {
	if want == key {
		return true
	}
	if !strings.HasPrefix(key, "?:") || !strings.HasPrefix(want, "g") {
		return false
	}
	i := strings.Index(want, ":")
	if i < 0 || want[i:] != key[1:] {
		return false
	}
	g := want[:i]
	if b, ok := verifBound[g]; ok {
		return b == me
	}
	if _, taken := verifBoundRev[me]; taken {
		return false
	}
	return true
}

func verifSchedBind(want string, me int) {
	if strings.HasPrefix(want, "g") {
		if i := strings.Index(want, ":"); i > 0 {
			if _, ok := verifBound[want[:i]]; !ok {
				verifBound[want[:i]] = me
				verifBoundRev[me] = want[:i]
			}
		}
	}
}

func verifSchedAt(key string) {
	order := verifM.SchedOrder
	if len(order) == 0 {
		runtime.Gosched()
		return
	}
	me := verifMyLabel()
	if me < 0 {
		// unidentified goroutines are told apart by their goroutine id inside the sequencer
		gid, _ := strconv.Atoi(verifGoid())
		me = -1 - gid
	}
	verifSchedMu.Lock()
	defer verifSchedMu.Unlock()
	if verifSchedRunner == me {
		verifSchedArrived = true
		verifSchedCond.Broadcast()
	}
	deadline := time.Now().Add(3 * time.Second)
	for !verifSchedBroken && verifSchedPos < len(order) {
		myTurn := verifSchedMatch(order[verifSchedPos], key, me)
		// the previous runner must be quiescent: at its next point, finished, or (after a grace period) blocked
		quiet := verifSchedRunner == 1<<30 || verifSchedRunner == me || verifSchedArrived || time.Since(verifSchedLast) > 150*time.Millisecond
		if myTurn && quiet {
			break
		}
		if time.Now().After(deadline) {
			verifSchedBroken = true // the recorded order cannot be followed natively: run free from here
			fmt.Println("VERIF-SCHED: gave up forcing the schedule at " + key)
			break
		}
		// wake up periodically (grace period, deadline)
		go func() { time.Sleep(20 * time.Millisecond); verifSchedCond.Broadcast() }()
		verifSchedCond.Wait()
	}
	if !verifSchedBroken && verifSchedPos < len(order) {
		verifSchedBind(order[verifSchedPos], me)
		verifSchedPos++
		verifSchedRunner, verifSchedArrived, verifSchedLast = me, false, time.Now()
	}
	verifSchedCond.Broadcast()
}
func verifOSCalls() int                  { return -1 }
func verifOSCallArg(i, k int) string     { return "" }
func verifOSCallName(i int) string       { return "" }
func verifSymbolic() bool { return false }

// ---- tar stream script (natively serialised with the real archive/tar.Writer) ----

type verifTarEnt struct {
	name     string
	typeflag byte
	mode     int64
	size     int
	fill     int
}

var verifTarScript []verifTarEnt

func verifTarAdd(name string, typeflag int, mode int64, size int, fill int) {
	verifTarScript = append(verifTarScript, verifTarEnt{name, byte(typeflag), mode, size, fill})
}

var verifErrReader = errors.New("verif: injected reader failure")

type verifTarStream struct {
	data   []byte
	pos    int
	cut    int
	failAt int
	hdrs   []int // offsets of the entry headers and of the trailer
}

func (s *verifTarStream) Read(p []byte) (int, error) {
	limit := len(s.data)
	if s.failAt >= 0 && s.failAt*512 < limit {
		limit = s.failAt * 512
	}
	if s.pos >= limit {
		if s.failAt >= 0 && s.pos >= s.failAt*512 {
			return 0, verifErrReader
		}
		return 0, io.EOF
	}
	n := copy(p, s.data[s.pos:limit])
	s.pos += n
	return n, nil
}

func verifTarReader(cut, failAt int) io.Reader {
	var buf bytes.Buffer
	w := tar.NewWriter(&buf)
	var hdrs []int
	for _, e := range verifTarScript {
		_ = w.Flush()
		hdrs = append(hdrs, buf.Len())
		h := &tar.Header{Name: e.name, Typeflag: e.typeflag, Mode: e.mode, Size: int64(e.size), Format: tar.FormatGNU}
		if e.typeflag == tar.TypeDir {
			h.Size = 0
		}
		if err := w.WriteHeader(h); err != nil {
			panic(err)
		}
		if e.typeflag != tar.TypeDir {
			content := make([]byte, e.size)
			for i := range content {
				content[i] = byte((e.fill + i*7) %% 256)
			}
			if _, err := w.Write(content); err != nil {
				panic(err)
			}
		}
	}
	_ = w.Flush()
	hdrs = append(hdrs, buf.Len())
	if err := w.Close(); err != nil {
		panic(err)
	}
	verifTarScript = nil
	data := buf.Bytes()
	if cut >= 0 && cut*512 < len(data) {
		data = data[:cut*512]
	}
	return &verifTarStream{data: data, cut: cut, failAt: failAt, hdrs: hdrs}
}

func verifRunEntry(entry string) {
	verifMainGoid = verifGoid()
	verifLoad()
	f, ok := verifEntries[entry]
	if !ok {
		panic("unknown harness entry " + entry)
	}
	defer func() {
		switch r := recover().(type) {
		case nil:
			fmt.Println("VERIF-END: ok")
		case verifStop:
			fmt.Println("VERIF-END: stopped")
		case verifAssumeViolated:
			fmt.Println("VERIF-END: assume-violated")
		default:
			fmt.Printf("VERIF-PANIC: %%v\n", r)
		}
	}()
	f()
}
`

const nativeTestTemplate = `package %s

import (
	"os"
	"strconv"
	"testing"
)

func TestVerifReplay(t *testing.T) {
	verifRunEntry(os.Getenv("VERIF_ENTRY"))
}

func TestVerifFuzz(t *testing.T) {
	n, _ := strconv.Atoi(os.Getenv("VERIF_FUZZ_N"))
	seed, _ := strconv.ParseInt(os.Getenv("VERIF_SEED"), 10, 64)
	verifFuzzEntry(os.Getenv("VERIF_ENTRY"), n, seed)
}
`

func packageNameOf(file string) (string, error) {
	f, err := parser.ParseFile(token.NewFileSet(), file, nil, parser.PackageClauseOnly)
	if err != nil {
		return "", err
	}
	return f.Name.Name, nil
}

// pkgOverlay describes what is injected into one repository package.
type pkgOverlay struct {
	Dir     string   // repo-relative package directory
	PkgName string   // Go package name
	Files   []string // absolute harness source files
	Entries []string
}

func (p *pkgOverlay) apiSource() []byte {
	return []byte(fmt.Sprintf(nativeAPITemplate, p.PkgName))
}

func (p *pkgOverlay) entriesSource() []byte {
	var sb strings.Builder
	fmt.Fprintf(&sb, "package %s\n\nvar verifEntries = map[string]func(){\n", p.PkgName)
	es := append([]string{}, p.Entries...)
	sort.Strings(es)
	last := ""
	for _, e := range es {
		if e == last {
			continue
		}
		last = e
		fmt.Fprintf(&sb, "\t%q: %s,\n", e, e)
	}
	sb.WriteString("}\n")
	return []byte(sb.String())
}

// engineOverlay is the in-memory overlay for go/packages.
func engineOverlay(repo string, pkgs []*pkgOverlay) (map[string][]byte, error) {
	ov := map[string][]byte{}
	for _, p := range pkgs {
		for _, f := range p.Files {
			b, err := os.ReadFile(f)
			if err != nil {
				return nil, err
			}
			ov[harnessOverlayPath(repo, p.Dir, f)] = rewritePackage(b, p.PkgName)
		}
		ov[filepath.Join(repo, p.Dir, "zz_verif_api.go")] = []byte(fmt.Sprintf(engineAPITemplate, p.PkgName))
	}
	for path, content := range instrumentedSources(repo, pkgs, true) {
		ov[path] = content
	}
	return ov, nil
}

// Source instrumentation (overlay only, /repo is never touched; regenerated from the current source on
// every run; an anchor that is not found leaves the point out).
//   - nativeOnly entries mirror a scheduling point that the engine models inside a library intrinsic;
//   - the others are applied to the engine's load AND to the native build: a call to verifHook (a function
//     the overlay adds to the instrumented package) is inserted before every occurrence of the anchor. The
//     engine intercepts verifHook as a harness-level scheduling point; natively the harness package installs
//     verifSched as the hook.
type srcInstr struct {
	harnessPkg string // applied when this package hosts harnesses of the check
	pkgDir     string // package whose source is instrumented
	pkgName    string
	file       string
	anchor     string
	before     string
	nativeOnly bool
	hookImport string // import path of pkgDir (for the native hook installation)
}

var sourceInstrumentation = []srcInstr{
	// engine: (*archive/tar.Reader).Next is a scheduling point under tar_next_sched (the stream may stall)
	{harnessPkg: "tar", pkgDir: "tar", file: "fs.go", anchor: "header, err := archive.Next()", before: "verifSched(\"tar.next\"); ", nativeOnly: true},
	// the blob mutex: interleavings inside one file operation (C15 lin.blob, enabled by blob_lock_sched)
	{harnessPkg: "mem", pkgDir: "keyvalue/blob", pkgName: "blob", file: "bytes.go", anchor: "b.mu.Lock()", before: "verifHook(\"blob.lock\"); ",
		hookImport: "github.com/hack-pad/hackpadfs/keyvalue/blob"},
	// the same when the harness lives in the blob package itself (C19 blob.CrossSet)
	{harnessPkg: "keyvalue/blob", pkgDir: "keyvalue/blob", pkgName: "blob", file: "bytes.go", anchor: "b.mu.Lock()", before: "verifHook(\"blob.lock\"); ",
		hookImport: "github.com/hack-pad/hackpadfs/keyvalue/blob"},
}

// instrumentedSources returns path -> new content for the instrumentation that applies to the given harness
// packages (engine = true: the load of the symbolic executor; false: the native test build).
func instrumentedSources(repo string, pkgs []*pkgOverlay, engine bool) map[string][]byte {
	out := map[string][]byte{}
	for _, p := range pkgs {
		for _, ins := range sourceInstrumentation {
			if ins.harnessPkg != p.Dir || (engine && ins.nativeOnly) {
				continue
			}
			src := filepath.Join(repo, ins.pkgDir, ins.file)
			b, err := os.ReadFile(src)
			if err != nil {
				continue
			}
			n := bytes.Count(b, []byte(ins.anchor))
			if n == 0 || (ins.nativeOnly && n != 1) {
				continue
			}
			out[src] = bytes.ReplaceAll(b, []byte(ins.anchor), []byte(ins.before+ins.anchor))
			if ins.nativeOnly {
				continue
			}
			// the hook the instrumented package calls: the harness package of the running test binary installs
			// VerifHook; when the instrumented package hosts harnesses itself, its own verifSched is the fall-back
			selfHosted := false
			for _, q := range pkgs {
				if q.Dir == ins.pkgDir {
					selfHosted = true
				}
			}
			hook := "package " + ins.pkgName + "\n\n// VerifHook is installed by the harness package of a native replay (verif instrumentation).\nvar VerifHook func(string)\n\nfunc verifHook(l string) {\n\tif VerifHook != nil {\n\t\tVerifHook(l)\n\t\treturn\n\t}\n"
			if selfHosted {
				if engine {
					hook += "\tif verifParam(\"blob_lock_sched\") != 0 {\n\t\tverifSched(l)\n\t}\n"
				} else {
					hook += "\tif verifM.Params[\"blob_lock_sched\"] != 0 {\n\t\tverifSched(l)\n\t}\n"
				}
			}
			hook += "}\n"
			out[filepath.Join(repo, ins.pkgDir, "zz_verif_hook.go")] = []byte(hook)
			if !engine && ins.pkgDir != p.Dir {
				inst := "package " + p.PkgName + "\n\nimport verifhooked \"" + ins.hookImport + "\"\n\nfunc init() {\n\tverifhooked.VerifHook = func(l string) {\n\t\tif verifM.Params[\"blob_lock_sched\"] != 0 {\n\t\t\tverifSched(l)\n\t\t}\n\t}\n}\n"
				out[filepath.Join(repo, p.Dir, "zz_verif_hookinit.go")] = []byte(inst)
			}
		}
	}
	return out
}

// NativeBuild compiles one test binary per harness package.
type NativeBuild struct {
	repo    string
	workDir string
	bins    map[string]string // pkg dir -> test binary
	errs    map[string]string
	BuildS  float64
}

func buildNative(repo, workDir string, pkgs []*pkgOverlay) *NativeBuild {
	nb := &NativeBuild{repo: repo, workDir: workDir, bins: map[string]string{}, errs: map[string]string{}}
	t0 := time.Now()
	os.MkdirAll(workDir, 0o755)
	replace := map[string]string{}
	for _, p := range pkgs {
		for i, f := range p.Files {
			// shared harness library files are written for another package: retarget their package clause
			b, err := os.ReadFile(f)
			if err == nil {
				if nb := rewritePackage(b, p.PkgName); !bytes.Equal(nb, b) {
					cp := filepath.Join(workDir, fmt.Sprintf("%s_lib%d_%s", strings.ReplaceAll(p.Dir, "/", "_"), i, filepath.Base(f)))
					os.WriteFile(cp, nb, 0o644)
					replace[harnessOverlayPath(repo, p.Dir, f)] = cp
					continue
				}
			}
			replace[harnessOverlayPath(repo, p.Dir, f)] = f
		}
		api := filepath.Join(workDir, strings.ReplaceAll(p.Dir, "/", "_")+"_api.go")
		os.WriteFile(api, p.apiSource(), 0o644)
		replace[filepath.Join(repo, p.Dir, "zz_verif_api.go")] = api
		ent := filepath.Join(workDir, strings.ReplaceAll(p.Dir, "/", "_")+"_entries.go")
		os.WriteFile(ent, p.entriesSource(), 0o644)
		replace[filepath.Join(repo, p.Dir, "zz_verif_entries.go")] = ent
		tst := filepath.Join(workDir, strings.ReplaceAll(p.Dir, "/", "_")+"_replay_test.go")
		os.WriteFile(tst, []byte(fmt.Sprintf(nativeTestTemplate, p.PkgName)), 0o644)
		replace[filepath.Join(repo, p.Dir, "zz_verif_replay_test.go")] = tst
	}
	k := 0
	for path, content := range instrumentedSources(repo, pkgs, false) {
		cp := filepath.Join(workDir, fmt.Sprintf("instr%d_%s", k, filepath.Base(path)))
		k++
		os.WriteFile(cp, content, 0o644)
		replace[path] = cp
	}
	ovb, _ := json.Marshal(map[string]interface{}{"Replace": replace})
	ovFile := filepath.Join(workDir, "overlay.json")
	os.WriteFile(ovFile, ovb, 0o644)
	type result struct {
		dir, bin, err string
	}
	ch := make(chan result, len(pkgs))
	for _, p := range pkgs {
		go func(p *pkgOverlay) {
			bin := filepath.Join(workDir, strings.ReplaceAll(p.Dir, "/", "_")+".test")
			cmd := exec.Command("go", "test", "-c", "-vet=off", "-overlay", ovFile, "-o", bin, "./"+p.Dir)
			cmd.Dir = repo
			cmd.Env = append(os.Environ(), "GOFLAGS=-mod=mod", "GOPROXY=off", "GOSUMDB=off", "GOTOOLCHAIN=local")
			out, err := cmd.CombinedOutput()
			if err != nil {
				ch <- result{p.Dir, "", fmt.Sprintf("%v: %s", err, out)}
				return
			}
			ch <- result{p.Dir, bin, ""}
		}(p)
	}
	for range pkgs {
		r := <-ch
		if r.err != "" {
			nb.errs[r.dir] = r.err
		} else {
			nb.bins[r.dir] = r.bin
		}
	}
	nb.BuildS = time.Since(t0).Seconds()
	return nb
}

type NativeRun struct {
	Output   string
	Fails    []string
	Obs      []string
	Panic    string
	End      string
	Hang     bool
	Crashed  bool
	ExitErr  string
}

type modelFile struct {
	Property string            `json:"property,omitempty"`
	Harness  string            `json:"harness,omitempty"`
	Pkg      string            `json:"pkg,omitempty"`
	Entry    string            `json:"entry,omitempty"`
	Kind     string            `json:"kind,omitempty"`
	Label    string            `json:"label,omitempty"`
	Tags     []string          `json:"tags,omitempty"`
	Model    map[string]uint64 `json:"Model"`
	Choices  []ChoiceRec       `json:"Choices"`
	Params   map[string]int64  `json:"Params"`
	Trace    []int64           `json:"trace,omitempty"`
	Sched    bool              `json:"sched,omitempty"`
	SchedOrder []string        `json:"SchedOrder,omitempty"`
	Files    []string          `json:"harness_files,omitempty"`
	Native   string            `json:"native_result,omitempty"`
}

func (nb *NativeBuild) run(pkgDir, entry, modelPath string, timeout time.Duration) *NativeRun {
	bin, ok := nb.bins[pkgDir]
	if !ok {
		return &NativeRun{ExitErr: "no native binary: " + nb.errs[pkgDir]}
	}
	ctx, cancel := context.WithTimeout(context.Background(), timeout)
	defer cancel()
	cmd := exec.CommandContext(ctx, bin, "-test.run", "^TestVerifReplay$", "-test.count=1", "-test.timeout", (timeout + 5*time.Second).String())
	cmd.Dir = filepath.Join(nb.repo, pkgDir)
	cmd.Env = append(os.Environ(), "VERIF_MODEL="+modelPath, "VERIF_ENTRY="+entry)
	var buf bytes.Buffer
	cmd.Stdout, cmd.Stderr = &buf, &buf
	err := cmd.Run()
	r := &NativeRun{Output: buf.String()}
	if ctx.Err() != nil {
		r.Hang = true
	}
	if err != nil {
		r.ExitErr = err.Error()
	}
	for _, line := range strings.Split(r.Output, "\n") {
		switch {
		case strings.HasPrefix(line, "VERIF-FAIL: "):
			r.Fails = append(r.Fails, strings.TrimPrefix(line, "VERIF-FAIL: "))
		case strings.HasPrefix(line, "VERIF-OBS: "):
			r.Obs = append(r.Obs, strings.TrimPrefix(line, "VERIF-OBS: "))
		case strings.HasPrefix(line, "VERIF-PANIC: "):
			r.Panic = strings.TrimPrefix(line, "VERIF-PANIC: ")
		case strings.HasPrefix(line, "VERIF-END: "):
			r.End = strings.TrimPrefix(line, "VERIF-END: ")
		case strings.HasPrefix(line, "fatal error:"), strings.HasPrefix(line, "panic: "):
			r.Crashed = true
			if r.Panic == "" {
				r.Panic = line
			}
		}
	}
	return r
}

// reproduces decides whether the native run shows the failure the engine reported.
func reproduces(f *Failure, r *NativeRun) (bool, string) {
	switch f.Kind {
	case "assert":
		if len(r.Fails) > 0 && r.Fails[0] == f.Label {
			return true, "native assertion failed: " + f.Label
		}
	case "panic":
		if r.Panic != "" {
			return true, "native panic: " + r.Panic
		}
	case "fatal":
		if r.Crashed && strings.Contains(r.Output, "fatal error:") {
			return true, "native fatal error: " + r.Panic
		}
	case "deadlock":
		if r.Hang || strings.Contains(r.Output, "all goroutines are asleep") || strings.Contains(r.Output, "test timed out") {
			return true, "native run hangs"
		}
	case "truncated":
		if r.Hang || strings.Contains(r.Output, "stack exceeds") || strings.Contains(r.Output, "test timed out") {
			return true, "native run does not terminate (hang or stack overflow)"
		}
	}
	// the native run failed, but not in the way the engine predicted (e.g. Go's real map iteration
	// order differs from the modelled one): it still shows a violation on the real build
	if len(r.Fails) > 0 {
		return true, "native run violates the property at a different assertion: " + r.Fails[0]
	}
	if r.Panic != "" && r.End != "assume-violated" {
		return true, "native run panics: " + r.Panic
	}
	if r.Hang && r.End == "" {
		return true, "native run hangs"
	}
	why := "native run: end=" + r.End
	if r.Panic != "" {
		why += " panic=" + r.Panic
	}
	if r.Hang {
		why += " (timed out)"
	}
	if r.ExitErr != "" && r.End == "" {
		why += " exit=" + r.ExitErr
	}
	return false, why
}

// engineAPITemplate: import-free declarations for the symbolic run (the engine intercepts the calls).
const engineAPITemplate = `package %s

import "io"

type verifTarStream struct {
	cut    int
	failAt int
}

func (s *verifTarStream) Read(p []byte) (int, error)                            { return 0, io.EOF }
func verifTarAdd(name string, typeflag int, mode int64, size int, fill int) {}
func verifTarReader(cut, failAt int) io.Reader                                  { return &verifTarStream{cut: cut, failAt: failAt} }

func verifInt64(name string) int64           { return 0 }
func verifInt(name string) int               { return 0 }
func verifUint32(name string) uint32         { return 0 }
func verifByte(name string) byte             { return 0 }
func verifBool(name string) bool             { return false }
func verifBytes(name string, n int) []byte   { return nil }
func verifString(name string, n int) string  { return "" }
func verifChoice(name string, n int) int     { return 0 }
func verifParam(name string) int             { return 0 }
func verifName(prefix string, i int) string  { return prefix }
func verifAssume(c bool)                     {}
func verifAssert(c bool, label string)       {}
func verifReach(label string)                {}
func verifTag(k, v string)                   {}
func verifObserve(label string, v int64)     {}
func verifObserveStr(label, v string)        {}
func verifObserveBool(label string, v bool)  {}
func verifWaitIdle() int                     { return 0 }
func verifYield()                            {}
func verifGo(i int)                          {}
func verifGoDone()                           {}
func verifSched(label string)                {}
func verifOSCalls() int                      { return 0 }
func verifOSCallArg(i, k int) string         { return "" }
func verifOSCallName(i int) string           { return "" }
func verifSymbolic() bool                    { return true }
`


var packageClauseRE = regexp.MustCompile(`(?m)^package\s+\w+`)

// rewritePackage retargets the package clause of a shared harness library file.
func rewritePackage(src []byte, pkg string) []byte {
	loc := packageClauseRE.FindIndex(src)
	if loc == nil {
		return src
	}
	out := append([]byte{}, src[:loc[0]]...)
	out = append(out, []byte("package "+pkg)...)
	return append(out, src[loc[1]:]...)
}
