package main

// Tier B: interpreted goroutines, a baton-passing scheduler whose choices are
// engine decisions (bounded preemptions), and models of the sync primitives.

import (
	"fmt"
	"go/types"

	"golang.org/x/tools/go/ssa"
)

type gor struct {
	id        int
	label     int // logical id given by the harness (verifGo)
	labelled  bool
	wake      chan struct{}
	exited    chan struct{}
	done      bool
	blockedOn []interface{} // nil = runnable
	what      string
}

type mutexModel struct {
	locked bool
	owner  int
}
type wgModel struct{ n int64 }
type rwModel struct {
	writer  bool
	readers int
}
type onceModel struct {
	done    bool
	running bool
}

type Chan struct {
	cap    int
	buf    []value
	closed bool
	elem   types.Type
	// rendezvous bookkeeping for unbuffered channels
	taken int // number of values ever received
	sent  int // number of values ever enqueued
	recvWaiting int
}

func (e *Engine) schedInit() {
	g := &gor{id: 0, wake: make(chan struct{}, 1), exited: make(chan struct{})}
	e.gors = []*gor{g}
	e.cur = g
	e.preempts = 0
	e.killing = false
	e.pendingAbort = nil
	e.schedDec = 0
	e.mutexes = map[*value]*mutexModel{}
	e.wgs = map[*value]*wgModel{}
	e.rws = map[*value]*rwModel{}
	e.onces = map[*value]bool{}
	e.oncesRunning = map[*value]int{}
}

func (e *Engine) runnable() []*gor {
	var r []*gor
	for _, g := range e.gors {
		if !g.done && g.blockedOn == nil {
			r = append(r, g)
		}
	}
	return r
}

func (e *Engine) schedDecide(n int) int {
	e.schedDec++
	return e.decide(make([]*Sym, n))
}

// switchTo hands the baton to g and parks the current goroutine until it is rescheduled.
func (e *Engine) switchTo(g *gor) {
	cur := e.cur
	if g == cur {
		return
	}
	e.cur = g
	g.wake <- struct{}{}
	<-cur.wake
	e.afterWake()
}

func (e *Engine) afterWake() {
	if e.killing {
		panic(pathAbort{"killed"})
	}
	if e.pendingAbort != nil && e.cur.id == 0 {
		r := e.pendingAbort
		e.pendingAbort = nil
		panic(r)
	}
}

// yield is called before every visible (synchronisation) operation.
func (e *Engine) yield() {
	if e.params["sched_points_only"] != 0 {
		return // preemption only at the harness' verifSched points (natively forceable schedules)
	}
	e.yieldNow()
}

func (e *Engine) yieldNow() {
	if len(e.gors) == 1 {
		return
	}
	if e.preempts >= e.bud.Preempt {
		return
	}
	rs := e.runnable()
	if len(rs) <= 1 {
		return
	}
	others := []*gor{}
	for _, g := range rs {
		if g != e.cur {
			others = append(others, g)
		}
	}
	c := e.schedDecide(1 + len(others))
	if c == 0 {
		return
	}
	e.preempts++
	e.switchTo(others[c-1])
}

// block parks the current goroutine until one of 'on' is signalled.
func (e *Engine) block(what string, on ...interface{}) {
	cur := e.cur
	cur.blockedOn = on
	cur.what = what
	rs := e.runnable()
	if len(rs) == 0 {
		e.reportDeadlock()
		return
	}
	next := e.pickNext(rs, cur.id)
	e.cur = next
	next.wake <- struct{}{}
	<-cur.wake
	e.afterWake()
}

// pickNext chooses who runs when the current goroutine cannot continue (blocked or finished).
// Delay-bounded scheduling: the default is the next runnable goroutine in round-robin order after
// 'after'; choosing any other one costs one unit of the same budget that preemptions use.
func (e *Engine) pickNext(rs []*gor, after int) *gor {
	// round-robin order starting after the given id
	ordered := make([]*gor, 0, len(rs))
	for _, g := range rs {
		if g.id > after {
			ordered = append(ordered, g)
		}
	}
	for _, g := range rs {
		if g.id <= after {
			ordered = append(ordered, g)
		}
	}
	if len(ordered) == 1 || e.preempts >= e.bud.Preempt {
		return ordered[0]
	}
	c := e.schedDecide(len(ordered))
	if c > 0 {
		e.preempts++
	}
	return ordered[c]
}

func (e *Engine) deadlockDesc() string {
	var desc []string
	for _, g := range e.gors {
		if !g.done {
			desc = append(desc, fmt.Sprintf("g%d:%s", g.id, g.what))
		}
	}
	return fmt.Sprint(desc)
}

func (e *Engine) reportDeadlock() {
	e.failNow("deadlock", "DEADLOCK: all goroutines blocked", e.deadlockDesc())
	if e.cur.id == 0 {
		panic(pathAbort{"deadlock"})
	}
	// hand control to main so it can unwind the path
	e.pendingAbort = pathAbort{"deadlock"}
	cur := e.cur
	e.toMain()
	<-cur.wake // never scheduled again except by killAll
	e.afterWake()
}

// toMain makes main runnable and gives it the baton without parking the caller.
func (e *Engine) toMain() {
	m := e.gors[0]
	m.blockedOn = nil
	prev := e.cur
	e.cur = m
	m.wake <- struct{}{}
	_ = prev
}

func (e *Engine) unblock(on interface{}) {
	for _, g := range e.gors {
		for _, o := range g.blockedOn {
			if o == on {
				g.blockedOn = nil
				break
			}
		}
	}
}

func (e *Engine) spawn(fnv value, args []value) {
	g := &gor{id: len(e.gors), label: len(e.gors), wake: make(chan struct{}, 1), exited: make(chan struct{})}
	e.gors = append(e.gors, g)
	if len(e.gors) > 512 {
		e.abort("TRUNCATED more than 512 goroutines")
	}
	go func() {
		<-g.wake
		defer close(g.exited)
		if e.killing {
			g.done = true
			return
		}
		defer func() {
			r := recover()
			g.done = true
			g.blockedOn = nil
			e.unblock(g)
			if e.killing {
				return
			}
			switch r := r.(type) {
			case nil:
			case targetPanic:
				// an unrecovered panic in any goroutine kills the program
				e.failNow("panic", "PANIC in goroutine: "+panicText(r), "")
				e.pendingAbort = pathAbort{"goroutine panic"}
			case pathAbort, solverFailure:
				e.pendingAbort = r
			default:
				e.pendingAbort = engineBug{msg: fmt.Sprint(r)}
			}
			if e.pendingAbort != nil {
				e.toMain()
				return
			}
			rs := e.runnable()
			if len(rs) == 0 {
				alive := false
				for _, o := range e.gors {
					if !o.done {
						alive = true
					}
				}
				if alive {
					e.failNow("deadlock", "DEADLOCK: all goroutines blocked", e.deadlockDesc())
					e.pendingAbort = pathAbort{"deadlock"}
					e.toMain()
				}
				return
			}
			var next *gor
			func() {
				defer func() {
					if r := recover(); r != nil {
						e.pendingAbort = r
						next = nil
					}
				}()
				next = e.pickNext(rs, g.id)
			}()
			if next == nil {
				e.toMain()
				return
			}
			e.cur = next
			next.wake <- struct{}{}
		}()
		e.call(fnv, args, nil)
	}()
}

type engineBug struct {
	msg   string
	depth int
}

// killAll terminates all parked goroutines at the end of a path (called by main).
func (e *Engine) killAll() {
	e.killing = true
	for _, g := range e.gors[1:] {
		if !g.done {
			select {
			case g.wake <- struct{}{}:
			default:
			}
		}
		<-g.exited
	}
}

// waitIdle lets every other goroutine run until all are done or blocked; returns how many are blocked.
func (e *Engine) waitIdle() int {
	for {
		rs := e.runnable()
		var others []*gor
		for _, g := range rs {
			if g != e.cur {
				others = append(others, g)
			}
		}
		if len(others) == 0 {
			break
		}
		e.switchTo(e.pickNext(others, e.cur.id))
	}
	n := 0
	for _, g := range e.gors {
		if !g.done && g != e.cur {
			n++
		}
	}
	return n
}

// ---- sync intrinsics with scheduling ----

func (e *Engine) mutex(p *value) *mutexModel {
	m, ok := e.mutexes[p]
	if !ok {
		m = &mutexModel{}
		e.mutexes[p] = m
	}
	return m
}

func (e *Engine) wg(p *value) *wgModel {
	w, ok := e.wgs[p]
	if !ok {
		w = &wgModel{}
		e.wgs[p] = w
	}
	return w
}

func (e *Engine) rw(p *value) *rwModel {
	w, ok := e.rws[p]
	if !ok {
		w = &rwModel{}
		e.rws[p] = w
	}
	return w
}

func nonNilPtr(v value) *value {
	p := v.(*value)
	if p == nil {
		panic(rtPanic("invalid memory address or nil pointer dereference"))
	}
	return p
}

func init() {
	reg := func(name string, f intrinsicFunc) { intrinsics[name] = f }
	reg("(*sync.Mutex).Lock", func(e *Engine, fn *ssa.Function, args []value) (value, bool) {
		p := nonNilPtr(args[0])
		e.yield()
		m := e.mutex(p)
		for m.locked {
			e.block("Mutex.Lock", p)
		}
		m.locked, m.owner = true, e.cur.id
		return nil, true
	})
	reg("(*sync.Mutex).TryLock", func(e *Engine, fn *ssa.Function, args []value) (value, bool) {
		p := nonNilPtr(args[0])
		e.yield()
		m := e.mutex(p)
		if m.locked {
			return false, true
		}
		m.locked, m.owner = true, e.cur.id
		return true, true
	})
	reg("(*sync.Mutex).Unlock", func(e *Engine, fn *ssa.Function, args []value) (value, bool) {
		p := nonNilPtr(args[0])
		m := e.mutex(p)
		if !m.locked {
			panic(targetPanic{v: "fatal error: sync: unlock of unlocked mutex", fatal: true})
		}
		m.locked = false
		e.unblock(p)
		return nil, true
	})
	reg("(*sync.RWMutex).Lock", func(e *Engine, fn *ssa.Function, args []value) (value, bool) {
		p := nonNilPtr(args[0])
		e.yield()
		m := e.rw(p)
		for m.writer || m.readers > 0 {
			e.block("RWMutex.Lock", p)
		}
		m.writer = true
		return nil, true
	})
	reg("(*sync.RWMutex).Unlock", func(e *Engine, fn *ssa.Function, args []value) (value, bool) {
		p := nonNilPtr(args[0])
		m := e.rw(p)
		if !m.writer {
			panic(targetPanic{v: "fatal error: sync: Unlock of unlocked RWMutex", fatal: true})
		}
		m.writer = false
		e.unblock(p)
		return nil, true
	})
	reg("(*sync.RWMutex).RLock", func(e *Engine, fn *ssa.Function, args []value) (value, bool) {
		p := nonNilPtr(args[0])
		e.yield()
		m := e.rw(p)
		for m.writer {
			e.block("RWMutex.RLock", p)
		}
		m.readers++
		return nil, true
	})
	reg("(*sync.RWMutex).RUnlock", func(e *Engine, fn *ssa.Function, args []value) (value, bool) {
		p := nonNilPtr(args[0])
		m := e.rw(p)
		if m.readers <= 0 {
			panic(targetPanic{v: "fatal error: sync: RUnlock of unlocked RWMutex", fatal: true})
		}
		m.readers--
		e.unblock(p)
		return nil, true
	})
	reg("(*sync.WaitGroup).Add", func(e *Engine, fn *ssa.Function, args []value) (value, bool) {
		p := nonNilPtr(args[0])
		w := e.wg(p)
		w.n += args[1].(int64)
		if w.n < 0 {
			panic(targetPanic{v: "sync: negative WaitGroup counter"})
		}
		if w.n == 0 {
			e.unblock(p)
		}
		return nil, true
	})
	reg("(*sync.WaitGroup).Done", func(e *Engine, fn *ssa.Function, args []value) (value, bool) {
		p := nonNilPtr(args[0])
		e.yield()
		w := e.wg(p)
		w.n--
		if w.n < 0 {
			panic(targetPanic{v: "sync: negative WaitGroup counter"})
		}
		if w.n == 0 {
			e.unblock(p)
		}
		return nil, true
	})
	reg("(*sync.WaitGroup).Wait", func(e *Engine, fn *ssa.Function, args []value) (value, bool) {
		p := nonNilPtr(args[0])
		e.yield()
		for e.wg(p).n > 0 {
			e.block("WaitGroup.Wait", p)
		}
		return nil, true
	})
	reg("(*sync.Once).Do", func(e *Engine, fn *ssa.Function, args []value) (value, bool) {
		p := nonNilPtr(args[0])
		e.yield()
		for {
			if e.onces[p] {
				return nil, true
			}
			if owner, running := e.oncesRunning[p]; running {
				if owner == e.cur.id {
					e.block("Once.Do (re-entrant)", p) // self-deadlock as in Go
				} else {
					e.block("Once.Do", p)
				}
				continue
			}
			break
		}
		e.oncesRunning[p] = e.cur.id
		func() {
			defer func() {
				// Go marks the Once done even if f panics
				delete(e.oncesRunning, p)
				e.onces[p] = true
				e.unblock(p)
			}()
			e.call(args[1], nil, nil)
		}()
		return nil, true
	})
}

// ---- channels ----

func (e *Engine) chanSend(ch *Chan, v value) {
	e.yield()
	if ch == nil {
		e.block("send on nil channel", new(int))
		return
	}
	for {
		if ch.closed {
			panic(targetPanic{v: "send on closed channel"})
		}
		if ch.cap > 0 {
			if len(ch.buf) < ch.cap {
				ch.buf = append(ch.buf, copyVal(v))
				ch.sent++
				e.unblock(ch)
				return
			}
		} else if len(ch.buf) == 0 {
			// unbuffered: hand the value over and wait until a receiver has taken it
			ch.buf = append(ch.buf, copyVal(v))
			ch.sent++
			my := ch.sent
			e.unblock(ch)
			for ch.taken < my {
				if ch.closed {
					panic(targetPanic{v: "send on closed channel"})
				}
				e.block("chan send (unbuffered)", ch)
			}
			return
		}
		e.block("chan send", ch)
	}
}

func (e *Engine) chanRecv(ch *Chan) (value, bool) {
	e.yield()
	if ch == nil {
		e.block("receive on nil channel", new(int))
		return nil, false
	}
	for {
		if len(ch.buf) > 0 {
			v := ch.buf[0]
			ch.buf = append([]value{}, ch.buf[1:]...)
			ch.taken++
			e.unblock(ch)
			return v, true
		}
		if ch.closed {
			return e.zero(ch.elem), false
		}
		ch.recvWaiting++
		e.block("chan receive", ch)
		ch.recvWaiting--
	}
}

func (e *Engine) chanClose(ch *Chan) {
	e.yield()
	if ch == nil {
		panic(targetPanic{v: "close of nil channel"})
	}
	if ch.closed {
		panic(targetPanic{v: "close of closed channel"})
	}
	ch.closed = true
	e.unblock(ch)
}

func (fr *frame) selectInstr(in *ssa.Select) value {
	e := fr.e
	e.yield()
	nRecv := 0
	for _, st := range in.States {
		if st.Dir == types.RecvOnly {
			nRecv++
		}
	}
	result := func(idx int, recvOK bool, recvVal value, recvState int) value {
		t := Tuple{int64(idx), recvOK}
		for i, st := range in.States {
			if st.Dir != types.RecvOnly {
				continue
			}
			if i == recvState {
				t = append(t, recvVal)
			} else {
				t = append(t, e.zero(st.Chan.Type().Underlying().(*types.Chan).Elem()))
			}
		}
		return t
	}
	chans := make([]*Chan, len(in.States))
	for i, st := range in.States {
		chans[i], _ = fr.get(st.Chan).(*Chan)
	}
	for {
		var ready []int
		for i, st := range in.States {
			ch := chans[i]
			if ch == nil {
				continue
			}
			if st.Dir == types.RecvOnly {
				if len(ch.buf) > 0 || ch.closed {
					ready = append(ready, i)
				}
			} else {
				if ch.closed || (ch.cap > 0 && len(ch.buf) < ch.cap) || (ch.cap == 0 && len(ch.buf) == 0 && ch.recvWaiting > 0) {
					ready = append(ready, i)
				}
			}
		}
		if len(ready) > 0 {
			c := 0
			if len(ready) > 1 {
				c = e.schedDecide(len(ready))
			}
			i := ready[c]
			st, ch := in.States[i], chans[i]
			if st.Dir == types.RecvOnly {
				if len(ch.buf) > 0 {
					v := ch.buf[0]
					ch.buf = append([]value{}, ch.buf[1:]...)
					ch.taken++
					e.unblock(ch)
					return result(i, true, v, i)
				}
				return result(i, false, e.zero(ch.elem), i)
			}
			if ch.closed {
				panic(targetPanic{v: "send on closed channel"})
			}
			ch.buf = append(ch.buf, copyVal(fr.get(st.Send)))
			ch.sent++
			e.unblock(ch)
			return result(i, false, nil, -1)
		}
		if !in.Blocking {
			return result(-1, false, nil, -1)
		}
		var on []interface{}
		for _, ch := range chans {
			if ch != nil {
				on = append(on, ch)
			}
		}
		if len(on) == 0 {
			on = append(on, new(int))
		}
		for i, st := range in.States {
			if st.Dir == types.RecvOnly && chans[i] != nil {
				chans[i].recvWaiting++
			}
		}
		e.block("select", on...)
		for i, st := range in.States {
			if st.Dir == types.RecvOnly && chans[i] != nil {
				chans[i].recvWaiting--
			}
		}
	}
}
