package main

// Hash-consed SMT terms (bit-vectors and Bools), a light simplifier, a concrete
// evaluator (used for model-guided feasibility and for folding), and the pipe to
// one long-lived solver process.

import (
	"os"
	"bufio"
	"fmt"
	"io"
	"os/exec"
	"sort"
	"strconv"
	"strings"
	"time"
)

// Sym is a hash-consed SMT term. bits==0 means Bool.
type Sym struct {
	id   int
	bits int
	op   string // "in", "const", "true", "false" or an SMT operator
	args []*Sym
	name string // for inputs
	cval uint64
	sent bool
	proxied bool // a Boolean constant p<id> equal to this literal has been declared (unsat-assumption names)
}

type Solver struct {
	bin     string
	argv    []string
	cmd     *exec.Cmd
	in      io.WriteCloser
	out     *bufio.Reader
	terms   map[string]*Sym
	all     []*Sym
	inputs  []*Sym
	byName  map[string]*Sym
	timeout int // ms per query

	// caches
	unsatCache map[string]bool
	// unsat cores (the subset of assumptions the solver needed), indexed by their newest literal: a later
	// query that contains a whole core is unsat without asking the solver
	useCores  bool
	cores     map[int][][]int
	CoreHits  int
	lastModel  map[int]uint64 // input id -> value, from the last sat answer
	haveModel  bool

	// statistics
	Queries, Sat, Unsat, Unknown int
	CacheHits, ModelHits         int
	Time                         time.Duration
	Errors                       []string

	// cross-solver re-discharge (thorough tier): a sample of assertion queries as stand-alone SMT-LIB scripts
	RecheckMax int
	Recheck    []recheckQuery
	recheckSeen int
}

type recheckQuery struct {
	Script string
	Sat    bool
}

// keepForRecheck keeps a reservoir sample of assertion queries with the verdict this solver gave.
func (s *Solver) keepForRecheck(lits []*Sym, sat bool) {
	if s.RecheckMax == 0 {
		return
	}
	for _, l := range lits {
		if l.isFalse() {
			return
		}
	}
	s.recheckSeen++
	q := recheckQuery{Sat: sat}
	switch {
	case len(s.Recheck) < s.RecheckMax:
		q.Script = s.Dump(lits)
		s.Recheck = append(s.Recheck, q)
	case s.recheckSeen%17 == 0:
		q.Script = s.Dump(lits)
		s.Recheck[s.recheckSeen/17%s.RecheckMax] = q
	}
}

type solverFailure struct{ msg string }

func NewSolver(timeoutMs int) *Solver {
	s := &Solver{bin: "z3", argv: []string{"-in"}, terms: map[string]*Sym{}, byName: map[string]*Sym{},
		unsatCache: map[string]bool{}, timeout: timeoutMs, useCores: os.Getenv("VERIF_NOCORES") == "", cores: map[int][][]int{}}
	s.start()
	return s
}

func (s *Solver) start() {
	cmd := exec.Command(s.bin, s.argv...)
	in, _ := cmd.StdinPipe()
	out, _ := cmd.StdoutPipe()
	if err := cmd.Start(); err != nil {
		panic(err)
	}
	s.cmd, s.in, s.out = cmd, in, bufio.NewReaderSize(out, 1<<16)
	fmt.Fprintln(in, "(set-option :print-success false)")
	if s.useCores {
		fmt.Fprintln(in, "(set-option :produce-unsat-assumptions true)")
	}
	if s.timeout > 0 {
		fmt.Fprintf(in, "(set-option :timeout %d)\n", s.timeout)
	}
	for _, t := range s.all {
		t.sent = false
		t.proxied = false
	}
}

// Reset drops every term (called between paths to bound memory of long runs).
func (s *Solver) Restart() {
	s.Close()
	s.terms = map[string]*Sym{}
	s.byName = map[string]*Sym{}
	s.all, s.inputs = nil, nil
	s.unsatCache = map[string]bool{}
	s.cores = map[int][][]int{}
	s.lastModel, s.haveModel = nil, false
	s.start()
}

func (s *Solver) Close() {
	if s.in != nil {
		s.in.Close()
	}
	if s.cmd != nil {
		s.cmd.Wait()
	}
}

func mask(bits int) uint64 {
	if bits >= 64 || bits == 0 {
		return ^uint64(0)
	}
	return (1 << uint(bits)) - 1
}

func sext(v uint64, bits int) int64 {
	if bits >= 64 {
		return int64(v)
	}
	sh := uint(64 - bits)
	return int64(v<<sh) >> sh
}

func (s *Solver) raw(bits int, op string, cval uint64, name string, args ...*Sym) *Sym {
	var sb strings.Builder
	sb.WriteString(strconv.Itoa(bits))
	sb.WriteByte('|')
	sb.WriteString(op)
	sb.WriteByte('|')
	sb.WriteString(strconv.FormatUint(cval, 16))
	sb.WriteByte('|')
	sb.WriteString(name)
	for _, a := range args {
		sb.WriteByte('|')
		sb.WriteString(strconv.Itoa(a.id))
	}
	k := sb.String()
	if t, ok := s.terms[k]; ok {
		return t
	}
	t := &Sym{id: len(s.all), bits: bits, op: op, args: args, name: name, cval: cval}
	s.terms[k] = t
	s.all = append(s.all, t)
	if op == "in" {
		s.inputs = append(s.inputs, t)
		s.byName[name] = t
	}
	return t
}

func (s *Solver) Input(name string, bits int) *Sym {
	if t, ok := s.byName[name]; ok {
		if t.bits != bits {
			panic(fmt.Sprintf("input %s redeclared with different width (%d vs %d)", name, t.bits, bits))
		}
		return t
	}
	return s.raw(bits, "in", 0, name)
}

func (s *Solver) Const(bits int, v uint64) *Sym {
	if bits == 0 {
		return s.Bool(v != 0)
	}
	return s.raw(bits, "const", v&mask(bits), "")
}

func (s *Solver) Bool(b bool) *Sym {
	if b {
		return s.raw(0, "true", 1, "")
	}
	return s.raw(0, "false", 0, "")
}

func (t *Sym) isConst() bool { return t.op == "const" || t.op == "true" || t.op == "false" }
func (t *Sym) isTrue() bool  { return t.op == "true" }
func (t *Sym) isFalse() bool { return t.op == "false" }

func (s *Solver) Not(a *Sym) *Sym {
	switch a.op {
	case "not":
		return a.args[0]
	case "true":
		return s.Bool(false)
	case "false":
		return s.Bool(true)
	}
	return s.raw(0, "not", 0, "", a)
}

// mk builds an indexed-operator term such as (_ extract 7 0) or (_ zero_extend 56).
func (s *Solver) mk(bits int, op string, args ...*Sym) *Sym {
	return s.Op(bits, op, args...)
}

// Op builds a term with light simplification.
func (s *Solver) Op(bits int, op string, args ...*Sym) *Sym {
	allConst := true
	for _, a := range args {
		if !a.isConst() {
			allConst = false
			break
		}
	}
	if allConst && len(args) > 0 {
		vals := make([]uint64, len(args))
		for i, a := range args {
			vals[i] = a.cval
		}
		if v, ok := evalOp(op, bits, args, vals); ok {
			return s.Const(bits, v)
		}
	}
	switch op {
	case "not":
		return s.Not(args[0])
	case "=":
		if args[0] == args[1] {
			return s.Bool(true)
		}
		if args[0].bits == 0 { // Bool equality with a constant
			if args[1].isTrue() {
				return args[0]
			}
			if args[1].isFalse() {
				return s.Not(args[0])
			}
			if args[0].isTrue() {
				return args[1]
			}
			if args[0].isFalse() {
				return s.Not(args[1])
			}
		}
		if args[0].id > args[1].id {
			args = []*Sym{args[1], args[0]}
		}
	case "and":
		if args[0].isFalse() || args[1].isFalse() {
			return s.Bool(false)
		}
		if args[0].isTrue() {
			return args[1]
		}
		if args[1].isTrue() {
			return args[0]
		}
		if args[0] == args[1] {
			return args[0]
		}
	case "or":
		if args[0].isTrue() || args[1].isTrue() {
			return s.Bool(true)
		}
		if args[0].isFalse() {
			return args[1]
		}
		if args[1].isFalse() {
			return args[0]
		}
		if args[0] == args[1] {
			return args[0]
		}
	case "ite":
		if args[0].isTrue() {
			return args[1]
		}
		if args[0].isFalse() {
			return args[2]
		}
		if args[1] == args[2] {
			return args[1]
		}
	case "bvadd", "bvor", "bvxor":
		if args[1].isConst() && args[1].cval == 0 {
			return args[0]
		}
		if args[0].isConst() && args[0].cval == 0 {
			return args[1]
		}
	case "bvsub", "bvshl", "bvlshr", "bvashr":
		if args[1].isConst() && args[1].cval == 0 {
			return args[0]
		}
	case "bvand":
		if (args[1].isConst() && args[1].cval == 0) || (args[0].isConst() && args[0].cval == 0) {
			return s.Const(bits, 0)
		}
		if args[1].isConst() && args[1].cval == mask(bits) {
			return args[0]
		}
		if args[0].isConst() && args[0].cval == mask(bits) {
			return args[1]
		}
	case "bvule", "bvuge", "bvsle", "bvsge":
		if args[0] == args[1] {
			return s.Bool(true)
		}
	case "bvult", "bvugt", "bvslt", "bvsgt":
		if args[0] == args[1] {
			return s.Bool(false)
		}
	}
	return s.raw(bits, op, 0, "", args...)
}

// evalOp evaluates one operator on concrete argument values.
func evalOp(op string, bits int, args []*Sym, v []uint64) (uint64, bool) {
	b2u := func(b bool) uint64 {
		if b {
			return 1
		}
		return 0
	}
	ab := 0
	if len(args) > 0 {
		ab = args[0].bits
	}
	m := mask(bits)
	switch op {
	case "not":
		return b2u(v[0] == 0), true
	case "and":
		return b2u(v[0] != 0 && v[1] != 0), true
	case "or":
		return b2u(v[0] != 0 || v[1] != 0), true
	case "=":
		return b2u(v[0] == v[1]), true
	case "ite":
		if v[0] != 0 {
			return v[1], true
		}
		return v[2], true
	case "bvadd":
		return (v[0] + v[1]) & m, true
	case "bvsub":
		return (v[0] - v[1]) & m, true
	case "bvmul":
		return (v[0] * v[1]) & m, true
	case "bvand":
		return v[0] & v[1], true
	case "bvor":
		return v[0] | v[1], true
	case "bvxor":
		return v[0] ^ v[1], true
	case "bvnot":
		return ^v[0] & m, true
	case "bvneg":
		return (-v[0]) & m, true
	case "bvshl":
		if v[1] >= uint64(bits) {
			return 0, true
		}
		return (v[0] << v[1]) & m, true
	case "bvlshr":
		if v[1] >= uint64(bits) {
			return 0, true
		}
		return v[0] >> v[1], true
	case "bvashr":
		x := sext(v[0], bits)
		sh := v[1]
		if sh >= uint64(bits) {
			sh = uint64(bits - 1)
		}
		return uint64(x>>sh) & m, true
	case "bvudiv":
		if v[1] == 0 {
			return m, true
		}
		return v[0] / v[1], true
	case "bvurem":
		if v[1] == 0 {
			return v[0], true
		}
		return v[0] % v[1], true
	case "bvsdiv":
		x, y := sext(v[0], bits), sext(v[1], bits)
		if y == 0 {
			if x >= 0 {
				return m, true
			}
			return 1, true
		}
		if y == -1 {
			return uint64(-x) & m, true
		}
		return uint64(x/y) & m, true
	case "bvsrem":
		x, y := sext(v[0], bits), sext(v[1], bits)
		if y == 0 {
			return v[0], true
		}
		if y == -1 {
			return 0, true
		}
		return uint64(x%y) & m, true
	case "bvult":
		return b2u(v[0] < v[1]), true
	case "bvule":
		return b2u(v[0] <= v[1]), true
	case "bvugt":
		return b2u(v[0] > v[1]), true
	case "bvuge":
		return b2u(v[0] >= v[1]), true
	case "bvslt":
		return b2u(sext(v[0], ab) < sext(v[1], ab)), true
	case "bvsle":
		return b2u(sext(v[0], ab) <= sext(v[1], ab)), true
	case "bvsgt":
		return b2u(sext(v[0], ab) > sext(v[1], ab)), true
	case "bvsge":
		return b2u(sext(v[0], ab) >= sext(v[1], ab)), true
	case "concat":
		return (v[0]<<uint(args[1].bits) | v[1]) & m, true
	}
	if strings.HasPrefix(op, "(_ extract ") {
		var hi, lo int
		fmt.Sscanf(op, "(_ extract %d %d)", &hi, &lo)
		return (v[0] >> uint(lo)) & mask(hi-lo+1), true
	}
	if strings.HasPrefix(op, "(_ zero_extend ") {
		return v[0], true
	}
	if strings.HasPrefix(op, "(_ sign_extend ") {
		return uint64(sext(v[0], ab)) & m, true
	}
	return 0, false
}

// Eval evaluates t under an assignment of the inputs (missing inputs are 0).
func (s *Solver) Eval(t *Sym, model map[int]uint64, memo map[int]uint64) uint64 {
	if v, ok := memo[t.id]; ok {
		return v
	}
	var v uint64
	switch t.op {
	case "in":
		v = model[t.id] & mask(t.bits)
		if t.bits == 0 {
			v = model[t.id] & 1
		}
	case "const", "true", "false":
		v = t.cval
	default:
		vals := make([]uint64, len(t.args))
		if t.op == "ite" { // lazy
			c := s.Eval(t.args[0], model, memo)
			if c != 0 {
				v = s.Eval(t.args[1], model, memo)
			} else {
				v = s.Eval(t.args[2], model, memo)
			}
			memo[t.id] = v
			return v
		}
		for i, a := range t.args {
			vals[i] = s.Eval(a, model, memo)
		}
		var ok bool
		v, ok = evalOp(t.op, t.bits, t.args, vals)
		if !ok {
			panic("eval: unknown op " + t.op)
		}
	}
	memo[t.id] = v
	return v
}

func sortOf(bits int) string {
	if bits == 0 {
		return "Bool"
	}
	return fmt.Sprintf("(_ BitVec %d)", bits)
}

func (t *Sym) ref() string { return "t" + strconv.Itoa(t.id) }

func (s *Solver) send(t *Sym) {
	if t.sent {
		return
	}
	// iterative post-order to avoid deep recursion on long chains
	type item struct {
		t    *Sym
		done bool
	}
	stack := []item{{t, false}}
	for len(stack) > 0 {
		it := stack[len(stack)-1]
		stack = stack[:len(stack)-1]
		if it.t.sent {
			continue
		}
		if !it.done {
			stack = append(stack, item{it.t, true})
			for _, a := range it.t.args {
				if !a.sent {
					stack = append(stack, item{a, false})
				}
			}
			continue
		}
		s.emit(it.t)
	}
}

func (s *Solver) emit(t *Sym) {
	t.sent = true
	switch t.op {
	case "in":
		fmt.Fprintf(s.in, "(declare-const %s %s)\n", t.ref(), sortOf(t.bits))
	case "const":
		fmt.Fprintf(s.in, "(define-fun %s () %s (_ bv%d %d))\n", t.ref(), sortOf(t.bits), t.cval, t.bits)
	case "true", "false":
		fmt.Fprintf(s.in, "(define-fun %s () Bool %s)\n", t.ref(), t.op)
	default:
		var sb strings.Builder
		for _, a := range t.args {
			sb.WriteString(" ")
			sb.WriteString(a.ref())
		}
		fmt.Fprintf(s.in, "(define-fun %s () %s (%s%s))\n", t.ref(), sortOf(t.bits), t.op, sb.String())
	}
}

func litKey(lits []*Sym) string {
	ids := make([]int, 0, len(lits))
	for _, l := range lits {
		ids = append(ids, l.id)
	}
	sort.Ints(ids)
	var sb strings.Builder
	last := -1
	for _, id := range ids {
		if id == last {
			continue
		}
		last = id
		sb.WriteString(strconv.Itoa(id))
		sb.WriteByte(',')
	}
	return sb.String()
}

// Check returns true if the conjunction of lits is satisfiable. An unknown/timeout/error
// answer panics with solverFailure (the path, and hence the run, becomes inconclusive).
func (s *Solver) Check(lits []*Sym) bool {
	var eff []*Sym
	for _, l := range lits {
		if l.isTrue() {
			continue
		}
		if l.isFalse() {
			return false
		}
		eff = append(eff, l)
	}
	if len(eff) == 0 {
		return true
	}
	// model-guided: does the last model already satisfy everything?
	if s.haveModel {
		memo := map[int]uint64{}
		ok := true
		for _, l := range eff {
			if s.Eval(l, s.lastModel, memo) == 0 {
				ok = false
				break
			}
		}
		if ok {
			s.ModelHits++
			return true
		}
	}
	key := litKey(eff)
	if s.unsatCache[key] {
		s.CacheHits++
		return false
	}
	if s.useCores && len(s.cores) > 0 {
		var have map[int]bool
		for _, l := range eff {
			cs := s.cores[l.id]
			if len(cs) == 0 {
				continue
			}
			if have == nil {
				have = make(map[int]bool, len(eff))
				for _, x := range eff {
					have[x.id] = true
				}
			}
		nextCore:
			for _, c := range cs {
				for _, id := range c {
					if !have[id] {
						continue nextCore
					}
				}
				s.CoreHits++
				s.CacheHits++
				s.unsatCache[key] = true
				return false
			}
		}
	}
	start := time.Now()
	var sb strings.Builder
	sb.WriteString("(check-sat-assuming (")
	for _, l := range eff {
		s.send(l)
		if s.useCores {
			// assumptions are named constants so that the solver can report which of them it used
			if !l.proxied {
				fmt.Fprintf(s.in, "(declare-const p%d Bool)\n(assert (= p%d %s))\n", l.id, l.id, l.ref())
				l.proxied = true
			}
			sb.WriteString("p" + strconv.Itoa(l.id))
		} else {
			sb.WriteString(l.ref())
		}
		sb.WriteString(" ")
	}
	sb.WriteString("))\n")
	io.WriteString(s.in, sb.String())
	line := s.readLine()
	s.Queries++
	s.Time += time.Since(start)
	switch line {
	case "sat":
		s.Sat++
		s.fetchModel()
		return true
	case "unsat":
		s.Unsat++
		s.unsatCache[key] = true
		if s.useCores {
			s.recordCore(eff)
		}
		return false
	}
	s.Unknown++
	s.Errors = append(s.Errors, line)
	if strings.Contains(line, "(error") || line == "" {
		// the solver state may be broken: restart it (terms are re-sent lazily)
		s.Close()
		s.start()
	}
	panic(solverFailure{"solver answered: " + line})
}

// recordCore asks for the assumptions the refutation used and remembers them.
func (s *Solver) recordCore(eff []*Sym) {
	io.WriteString(s.in, "(get-unsat-assumptions)\n")
	ans := s.readSexp()
	if strings.Contains(ans, "(error") {
		s.useCores = false // not supported by this back end: fall back to exact-match caching
		return
	}
	byRef := make(map[string]int, len(eff))
	for _, l := range eff {
		byRef["p"+strconv.Itoa(l.id)] = l.id
	}
	var core []int
	max := -1
	for _, tok := range strings.Fields(strings.NewReplacer("(", " ", ")", " ").Replace(ans)) {
		id, ok := byRef[tok]
		if !ok {
			return // a form this parser does not know (e.g. a negation written out): do not record
		}
		core = append(core, id)
		if id > max {
			max = id
		}
	}
	if os.Getenv("VERIF_COREDBG") != "" {
		fmt.Fprintf(os.Stderr, "core %d of %d: %s\n", len(core), len(eff), ans)
	}
	if len(core) == 0 || len(core) == len(eff) {
		return
	}
	if s.cores == nil {
		s.cores = map[int][][]int{}
	}
	if len(s.cores[max]) < 64 {
		s.cores[max] = append(s.cores[max], core)
	}
}

func (s *Solver) readLine() string {
	line, err := s.out.ReadString('\n')
	if err != nil {
		return "(error \"solver pipe: " + err.Error() + "\")"
	}
	return strings.TrimSpace(line)
}

// readSexp reads one balanced s-expression (possibly spanning several lines).
func (s *Solver) readSexp() string {
	var sb strings.Builder
	depth, started := 0, false
	for {
		line, err := s.out.ReadString('\n')
		if err != nil {
			return sb.String()
		}
		sb.WriteString(line)
		for _, c := range line {
			if c == '(' {
				depth++
				started = true
			} else if c == ')' {
				depth--
			}
		}
		if started && depth <= 0 {
			return sb.String()
		}
		if !started && strings.TrimSpace(line) != "" {
			return sb.String()
		}
	}
}

func parseVal(v string) (uint64, bool) {
	v = strings.TrimRight(v, ")")
	switch {
	case strings.HasPrefix(v, "#x"):
		x, err := strconv.ParseUint(v[2:], 16, 64)
		return x, err == nil
	case strings.HasPrefix(v, "#b"):
		x, err := strconv.ParseUint(v[2:], 2, 64)
		return x, err == nil
	case v == "true":
		return 1, true
	case v == "false":
		return 0, true
	}
	return 0, false
}

// fetchModel reads the values of all declared inputs after a sat answer.
func (s *Solver) fetchModel() {
	var sb strings.Builder
	sb.WriteString("(get-value (")
	n := 0
	for _, in := range s.inputs {
		if in.sent {
			sb.WriteString(in.ref())
			sb.WriteByte(' ')
			n++
		}
	}
	sb.WriteString("))\n")
	m := map[int]uint64{}
	if n > 0 {
		io.WriteString(s.in, sb.String())
		out := s.readSexp()
		if strings.Contains(out, "(error") {
			s.Errors = append(s.Errors, strings.TrimSpace(out))
			panic(solverFailure{"get-value: " + strings.TrimSpace(out)})
		}
		f := strings.Fields(strings.NewReplacer("(", " ", ")", " ").Replace(out))
		for i := 0; i+1 < len(f); i += 2 {
			if !strings.HasPrefix(f[i], "t") {
				continue
			}
			id, err := strconv.Atoi(f[i][1:])
			if err != nil {
				continue
			}
			if x, ok := parseVal(f[i+1]); ok {
				m[id] = x
			}
		}
	}
	s.lastModel, s.haveModel = m, true
}

// Model returns the last model keyed by input name (all known inputs; unconstrained ones are 0).
func (s *Solver) Model() map[string]uint64 {
	m := map[string]uint64{}
	for _, in := range s.inputs {
		m[in.name] = s.lastModel[in.id]
	}
	return m
}

// ModelFor makes sure the last model satisfies lits (querying if needed) and returns it.
func (s *Solver) ModelFor(lits []*Sym) (map[string]uint64, bool) {
	if !s.Check(lits) {
		return nil, false
	}
	return s.Model(), true
}

// EvalUnderModel evaluates an arbitrary term under the last model.
func (s *Solver) EvalUnderModel(t *Sym) uint64 {
	return s.Eval(t, s.lastModel, map[int]uint64{})
}

// Dump renders the SMT-LIB text of a query (for cross-solver re-discharge).
func (s *Solver) Dump(lits []*Sym) string {
	var sb strings.Builder
	seen := map[int]bool{}
	var walk func(t *Sym)
	walk = func(t *Sym) {
		if seen[t.id] {
			return
		}
		seen[t.id] = true
		for _, a := range t.args {
			walk(a)
		}
		switch t.op {
		case "in":
			fmt.Fprintf(&sb, "(declare-const %s %s)\n", t.ref(), sortOf(t.bits))
		case "const":
			fmt.Fprintf(&sb, "(define-fun %s () %s (_ bv%d %d))\n", t.ref(), sortOf(t.bits), t.cval, t.bits)
		case "true", "false":
			fmt.Fprintf(&sb, "(define-fun %s () Bool %s)\n", t.ref(), t.op)
		default:
			fmt.Fprintf(&sb, "(define-fun %s () %s (%s", t.ref(), sortOf(t.bits), t.op)
			for _, a := range t.args {
				sb.WriteString(" " + a.ref())
			}
			sb.WriteString("))\n")
		}
	}
	for _, l := range lits {
		walk(l)
	}
	for _, l := range lits {
		fmt.Fprintf(&sb, "(assert %s)\n", l.ref())
	}
	sb.WriteString("(check-sat)\n")
	return sb.String()
}
