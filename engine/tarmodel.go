package main

// Tar stream model: archive/tar.Reader is std-lib byte parsing that is not the subject of any
// property; it is modelled by contract. The harness describes the archive with verifTarAdd(...)
// and obtains the stream with verifTarReader(cut, failAt); natively the same script is serialised
// with the real archive/tar.Writer, so replays go through the real parser.

import (
	"go/types"

	"golang.org/x/tools/go/ssa"
)

type tarEntry struct {
	name     string
	typeflag byte
	mode     value // may be symbolic
	size     int
	fill     int
}

type tarReaderObj struct {
	entries []tarEntry
	next    int // index of the next entry Next() returns
	cur     int // current entry (-1 none)
	off     int // bytes of the current entry already read
	pos     int // stream position in 512-byte blocks consumed so far
	cut     int // stream ends after this many blocks (-1: complete)
	failAt  int // the underlying reader fails (errInjected) once this many blocks were consumed (-1: never)
	stream  value
}

func tarBlocks(size int) int { return (size + 511) / 512 }

func tarContentByte(fill, i int) int64 { return int64((fill + i*7) % 256) }

func (e *Engine) ioErr(name string) value {
	return *e.global(e.prog.ImportedPackage("io").Var(name))
}

func (e *Engine) setField(st Struct, t types.Type, name string, v value) {
	s := t.Underlying().(*types.Struct)
	for i := 0; i < s.NumFields(); i++ {
		if s.Field(i).Name() == name {
			st[i] = v
			return
		}
	}
	e.abort("ENGINE no field %s in %v", name, t)
}

func (e *Engine) getField(st Struct, t types.Type, name string) value {
	s := t.Underlying().(*types.Struct)
	for i := 0; i < s.NumFields(); i++ {
		if s.Field(i).Name() == name {
			return st[i]
		}
	}
	e.abort("ENGINE no field %s in %v", name, t)
	return nil
}

func (e *Engine) tarObj(v value) *tarReaderObj {
	p, ok := v.(*value)
	if !ok || p == nil {
		panic(rtPanic("invalid memory address or nil pointer dereference"))
	}
	o, ok := (*p).(*tarReaderObj)
	if !ok {
		e.abort("UNSUPPORTED archive/tar.Reader that was not created from verifTarReader")
	}
	return o
}

// streamErr: the error the underlying stream produces when the model needs block number 'pos'.
func (e *Engine) tarStreamErr(o *tarReaderObj, need int) (value, bool) {
	if o.failAt >= 0 && need > o.failAt {
		return e.newNamedError("verif: injected reader failure"), true
	}
	if o.cut >= 0 && need > o.cut {
		return e.ioErr("ErrUnexpectedEOF"), true
	}
	return nil, false
}

func (e *Engine) newNamedError(msg string) value {
	if v, ok := e.namedErrs[msg]; ok {
		return v
	}
	v := e.newError(msg)
	if e.namedErrs == nil {
		e.namedErrs = map[string]value{}
	}
	e.namedErrs[msg] = v
	return v
}

func init() {
	verifAPI["verifTarAdd"] = func(e *Engine, fn *ssa.Function, a []value) (value, bool) {
		e.tarScript = append(e.tarScript, tarEntry{name: e.concStr(a[0], "tar entry name"), typeflag: byte(e.concInt(a[1], "typeflag")),
			mode: a[2], size: int(e.concInt(a[3], "size")), fill: int(e.concInt(a[4], "fill"))})
		return nil, true
	}
	intrinsics["archive/tar.NewReader"] = func(e *Engine, fn *ssa.Function, a []value) (value, bool) {
		iv, ok := a[0].(Iface)
		if !ok || iv.t == nil {
			e.abort("UNSUPPORTED tar.NewReader(nil)")
		}
		p, ok := iv.v.(*value)
		if !ok || p == nil {
			e.abort("UNSUPPORTED tar.NewReader over a reader that is not verifTarReader's")
		}
		st, ok := (*p).(Struct)
		pt, isPtr := iv.t.(*types.Pointer)
		if !ok || !isPtr {
			e.abort("UNSUPPORTED tar.NewReader over a reader that is not verifTarReader's")
		}
		o := &tarReaderObj{entries: append([]tarEntry{}, e.tarScript...), cur: -1, stream: a[0],
			cut: int(e.concretize(e.getField(st, pt.Elem(), "cut"), 64)), failAt: int(e.concretize(e.getField(st, pt.Elem(), "failAt"), 64))}
		var v value = o
		return &v, true
	}
	intrinsics["(*archive/tar.Reader).Next"] = func(e *Engine, fn *ssa.Function, a []value) (value, bool) {
		o := e.tarObj(a[0])
		if e.params["tar_next_sched"] != 0 {
			// the stream may stall before every header: a harness-level scheduling point that the native
			// stream reproduces when the header block is requested
			e.schedPoint("tar.next")
		} else {
			e.yield()
		}
		nilHdr := (*value)(nil)
		// skip the rest of the current entry
		if o.cur >= 0 {
			cur := o.entries[o.cur]
			restBlocks := tarBlocks(cur.size) - o.off/512
			if o.off%512 != 0 && o.off < cur.size {
				restBlocks = tarBlocks(cur.size) - (o.off+511)/512
			}
			if o.off >= cur.size {
				restBlocks = 0
			}
			if restBlocks > 0 {
				if err, bad := e.tarStreamErr(o, o.pos+restBlocks); bad {
					return Tuple{nilHdr, err}, true
				}
				o.pos += restBlocks
			}
			o.cur = -1
		}
		if o.next >= len(o.entries) {
			// end of archive: two zero blocks (a stream that ends exactly here is accepted as EOF too)
			if o.failAt >= 0 && o.pos+1 > o.failAt {
				return Tuple{nilHdr, e.newNamedError("verif: injected reader failure")}, true
			}
			return Tuple{nilHdr, e.ioErr("EOF")}, true
		}
		// header block
		if o.cut >= 0 && o.pos == o.cut {
			return Tuple{nilHdr, e.ioErr("EOF")}, true // stream ends at an entry boundary
		}
		if err, bad := e.tarStreamErr(o, o.pos+1); bad {
			return Tuple{nilHdr, err}, true
		}
		o.pos++
		ent := o.entries[o.next]
		o.cur, o.off = o.next, 0
		o.next++
		ht := e.pkgType("archive/tar", "Header")
		hdr := e.zero(ht).(Struct)
		e.setField(hdr, ht, "Typeflag", int64(ent.typeflag))
		e.setField(hdr, ht, "Name", ent.name)
		e.setField(hdr, ht, "Size", int64(ent.size))
		e.setField(hdr, ht, "Mode", ent.mode)
		var hv value = hdr
		return Tuple{&hv, Iface{}}, true
	}
	intrinsics["(*archive/tar.Reader).Read"] = func(e *Engine, fn *ssa.Function, a []value) (value, bool) {
		o := e.tarObj(a[0])
		e.yield()
		p := a[1].(Slice)
		if o.cur < 0 {
			return Tuple{int64(0), e.ioErr("EOF")}, true
		}
		ent := o.entries[o.cur]
		if ent.typeflag == '5' || o.off >= ent.size {
			return Tuple{int64(0), e.ioErr("EOF")}, true
		}
		n := p.len
		if ent.size-o.off < n {
			n = ent.size - o.off
		}
		// how many whole blocks of stream does reading up to off+n need?
		needBlocks := tarBlocks(o.off+n) - tarBlocks(o.off)
		if o.off%512 != 0 {
			needBlocks = tarBlocks(o.off+n) - (o.off+511)/512
		}
		avail := n
		var rerr value = Iface{}
		if err, bad := e.tarStreamErr(o, o.pos+needBlocks); bad {
			// deliver what the stream still holds, then the error
			limit := o.cut
			if o.failAt >= 0 && (limit < 0 || o.failAt < limit) {
				limit = o.failAt
			}
			haveBlocks := limit - o.pos
			if haveBlocks < 0 {
				haveBlocks = 0
			}
			upTo := ((o.off+511)/512 + haveBlocks) * 512
			if o.off%512 == 0 {
				upTo = (o.off/512 + haveBlocks) * 512
			}
			avail = upTo - o.off
			if avail < 0 {
				avail = 0
			}
			if avail > n {
				avail = n
			}
			needBlocks = haveBlocks
			rerr = err
		}
		e.touch(p.arr, p.off, p.off+avail)
		for i := 0; i < avail; i++ {
			p.arr[p.off+i] = tarContentByte(ent.fill, o.off+i)
		}
		o.off += avail
		o.pos += needBlocks
		if rerr.(Iface).t == nil && o.off >= ent.size {
			rerr = e.ioErr("EOF")
			if avail > 0 {
				rerr = Iface{} // like archive/tar: EOF on the following call
				if o.off >= ent.size {
					rerr = e.ioErr("EOF")
				}
			}
		}
		return Tuple{int64(avail), rerr}, true
	}
}
