package main

import (
	"fmt"
	"go/types"
	"strings"

	"golang.org/x/tools/go/ssa"
)

// value is the interpreter's universal value:
//   int64 (all integer kinds, normalised by static type), bool, string, *Sym (symbolic scalar),
//   SymStr, Struct, Array, Slice, *value (pointer), Iface, *Closure, *ssa.Function, *ssa.Builtin,
//   *Map, *Chan, Tuple, *IntrinsicFn, SymPtr, rtypeVal, *ctxObj ...
type value = interface{}

type Struct []value
type Array []value
type Slice struct {
	arr           []value
	off, len, cap int
}
type Iface struct {
	t types.Type
	v value
}
type Closure struct {
	fn  *ssa.Function
	env []value
}
type Tuple []value

// SymStr is a string of concrete length whose bytes may be symbolic (int64 or 8-bit *Sym).
type SymStr struct{ b []value }

// SymPtr is the address arr[idx] for a symbolic idx that cannot be out of range (reads build ite chains).
type SymPtr struct {
	arr  []value
	idx  *Sym
	bits int
}

type Map struct {
	m     map[interface{}]value
	order []interface{}
}

// mapIter is the state of a range loop over a map or string.
type mapIter struct {
	m    *Map
	keys []interface{}
	str  []value
	pos  int
	isStr bool
}

type IntrinsicFn struct {
	name string
	obj  interface{}
}
type rtypeVal struct{ t types.Type }

type targetPanic struct {
	v     value // the Go panic value (an Iface) or a string for run-time errors
	fatal bool  // Go "fatal error" (not recoverable)
}
type pathAbort struct{ reason string }

func strBytes(v value) ([]value, bool) {
	switch v := v.(type) {
	case string:
		b := make([]value, len(v))
		for i := range b {
			b[i] = int64(v[i])
		}
		return b, true
	case SymStr:
		return v.b, true
	}
	return nil, false
}

func mkStr(b []value) value {
	bs := make([]byte, len(b))
	for i, c := range b {
		if c == nil { // lazily zeroed cell of a large buffer
			continue
		}
		x, ok := c.(int64)
		if !ok {
			cp := append([]value{}, b...)
			for j := range cp {
				if cp[j] == nil {
					cp[j] = int64(0)
				}
			}
			return SymStr{cp}
		}
		bs[i] = byte(x)
	}
	return string(bs)
}

func strLen(v value) int {
	switch v := v.(type) {
	case string:
		return len(v)
	case SymStr:
		return len(v.b)
	}
	panic(fmt.Sprintf("strLen %T", v))
}

func mapKey(v value) interface{} {
	switch v := v.(type) {
	case string, int64, bool:
		return v
	case *value:
		return v
	case Iface:
		if v.t == nil {
			return nil
		}
		return [2]interface{}{v.t.String(), mapKey(v.v)}
	}
	panic(pathAbort{fmt.Sprintf("UNSUPPORTED map key %T", v)})
}

func copyVal(v value) value {
	switch v := v.(type) {
	case Struct:
		c := make(Struct, len(v))
		for i := range v {
			c[i] = copyVal(v[i])
		}
		return c
	case Array:
		c := make(Array, len(v))
		for i := range v {
			c[i] = copyVal(v[i])
		}
		return c
	}
	return v
}

// assign stores src into the cell dst. Aggregates are written in place so that
// pointers to their fields/elements (FieldAddr/IndexAddr) stay valid.
func assign(dst *value, src value) {
	switch s := src.(type) {
	case Struct:
		if d, ok := (*dst).(Struct); ok && len(d) == len(s) {
			for i := range s {
				assign(&d[i], s[i])
			}
			return
		}
	case Array:
		if d, ok := (*dst).(Array); ok && len(d) == len(s) {
			for i := range s {
				assign(&d[i], s[i])
			}
			return
		}
	}
	*dst = copyVal(src)
}

func basicOf(t types.Type) *types.Basic {
	b, _ := t.Underlying().(*types.Basic)
	return b
}

func intInfo(t types.Type) (bits int, signed bool, ok bool) {
	b := basicOf(t)
	if b == nil {
		return 0, false, false
	}
	switch b.Kind() {
	case types.Int, types.Int64, types.UntypedInt:
		return 64, true, true
	case types.Int32, types.UntypedRune:
		return 32, true, true
	case types.Int16:
		return 16, true, true
	case types.Int8:
		return 8, true, true
	case types.Uint, types.Uint64, types.Uintptr:
		return 64, false, true
	case types.Uint32:
		return 32, false, true
	case types.Uint16:
		return 16, false, true
	case types.Uint8:
		return 8, false, true
	}
	return 0, false, false
}

func norm(x int64, bits int, signed bool) int64 {
	if bits == 64 {
		return x
	}
	sh := uint(64 - bits)
	if signed {
		return x << sh >> sh
	}
	return int64(uint64(x) << sh >> sh)
}

func fmtVal(v value) string {
	switch v := v.(type) {
	case *Sym:
		return fmt.Sprintf("sym(t%d:%s)", v.id, v.op)
	case Iface:
		if v.t == nil {
			return "nil"
		}
		return fmt.Sprintf("%v{%s}", v.t, fmtVal(v.v))
	case *value:
		if v == nil {
			return "nilptr"
		}
		return "&" + fmtVal(*v)
	case Struct:
		var p []string
		for _, f := range v {
			p = append(p, fmtVal(f))
		}
		return "{" + strings.Join(p, " ") + "}"
	case SymStr:
		var p []string
		for _, f := range v.b {
			p = append(p, fmtVal(f))
		}
		return "symstr[" + strings.Join(p, " ") + "]"
	case Slice:
		var p []string
		for i := 0; i < v.len && i < 16; i++ {
			p = append(p, fmtVal(v.arr[v.off+i]))
		}
		return "[" + strings.Join(p, " ") + "]"
	}
	return fmt.Sprintf("%v", v)
}
