package mount

// VerifC01Step: an arbitrary well-formed pre-state over the universe, one namespace operation with
// arguments from the candidate set and symbolic flags/permissions/contents/times; the FS must succeed
// exactly when os does and end with the same tree.
func VerifC01Step() {
	defer rDone()
	fs := rNewFS()
	t := rNewTree()
	rSymTree(fs, t)
	op := verifChoice("op", len(rOpNames))
	r := rStep(fs, t, op, false) // removing/renaming the root is outside C01
	verifReach("stepped")
	if r.errno == 0 {
		verifReach("model-success")
		verifAssert(r.err == nil, "the operation failed where os succeeds")
	} else {
		verifReach("model-failure")
		verifAssert(r.err != nil, "the operation succeeded where os fails")
	}
	rCompare(fs, t, "after the step")
}

// VerifC01Hist: K operations from the empty file system; state compared with os after every step.
func VerifC01Hist() {
	defer rDone()
	fs := rNewFS()
	t := rNewTree()
	K := verifParam("K")
	for k := 0; k < K; k++ {
		op := verifChoice("op", len(rOpNames))
		r := rStep(fs, t, op, false)
		if r.errno == 0 {
			verifAssert(r.err == nil, "the operation failed where os succeeds")
		} else {
			verifAssert(r.err != nil, "the operation succeeded where os fails")
		}
		rCompare(fs, t, "after a step of the history")
	}
	verifReach("history-done")
}
