package mem

import (
	"io"
	goos "os"

	"github.com/hack-pad/hackpadfs"
	osfs "github.com/hack-pad/hackpadfs/os"
)

// c02FS is what the harness needs from the file system under test.
type c02FS interface {
	hackpadfs.FS
	hackpadfs.OpenFileFS
	hackpadfs.MkdirFS
}

// c02NewFS: TARGET=0 the in-memory FS (symbolic runs and replays); TARGET=1 the real os package
// in a fresh temp dir (native oracle validation only: the model must agree with os.File itself).
func c02NewFS() c02FS {
	if verifParam("TARGET") == 1 {
		dir, err := goos.MkdirTemp("", "verif-c02-")
		if err != nil {
			panic(err)
		}
		c02Cleanup = append(c02Cleanup, dir)
		sub, err := osfs.NewFS().Sub(dir[1:])
		if err != nil {
			panic(err)
		}
		return sub.(c02FS)
	}
	fs, err := NewFS()
	verifAssert(err == nil, "NewFS failed")
	return fs
}

var c02Cleanup []string

func c02Done() {
	for _, d := range c02Cleanup {
		goos.RemoveAll(d)
	}
	c02Cleanup = nil
}

// ---- reffile: the os.File model (validated natively against *os.File, see reffile_os_test) ----

const (
	c02RO = 0
	c02WO = 1
	c02RW = 2
)

type c02H struct {
	f   hackpadfs.File
	acc int
	app bool
	off int64
	// ghost: this handle has certainly loaded the file's data (a read returned bytes, or it changed the file)
	loaded bool
}

func c02Subject(h *c02H) {
	if h.loaded {
		verifTag("subject", "handle-that-loaded-data")
	} else {
		verifTag("subject", "handle-that-never-loaded-data")
	}
}

type c02Model struct{ data []byte }

func (m *c02Model) size() int64 { return int64(len(m.data)) }

func (m *c02Model) resize(n int64) {
	for int64(len(m.data)) < n {
		m.data = append(m.data, 0)
	}
	m.data = m.data[:n]
}

func (m *c02Model) writeAt(p []byte, pos int64) {
	if m.size() < pos+int64(len(p)) {
		m.resize(pos + int64(len(p)))
	}
	copy(m.data[pos:], p)
}

var c02FlagSets = []int{
	hackpadfs.FlagReadOnly,
	hackpadfs.FlagWriteOnly,
	hackpadfs.FlagReadWrite,
	hackpadfs.FlagReadWrite | hackpadfs.FlagAppend,
	hackpadfs.FlagWriteOnly | hackpadfs.FlagAppend,
	hackpadfs.FlagReadWrite | hackpadfs.FlagTruncate,
	hackpadfs.FlagReadOnly | hackpadfs.FlagTruncate,
}
var c02FlagNames = []string{"RO", "WO", "RW", "RW+APPEND", "WO+APPEND", "RW+TRUNC", "RO+TRUNC"}

func c02Open(fs c02FS, m *c02Model, which string, nflags int) *c02H {
	k := verifChoice(which+".flags", nflags)
	if verifParam("TAGFLAGS") != 0 {
		verifTag(which, c02FlagNames[k])
	}
	flag := c02FlagSets[k]
	perm := hackpadfs.FileMode(0)
	if c02Fresh {
		flag |= hackpadfs.FlagCreate
		perm = 0644
		c02Fresh = false
	}
	f, err := fs.OpenFile("f", flag, perm)
	verifAssert(err == nil, "OpenFile of an existing regular file failed")
	h := &c02H{f: f, app: flag&hackpadfs.FlagAppend != 0}
	switch {
	case flag&hackpadfs.FlagWriteOnly != 0:
		h.acc = c02WO
	case flag&hackpadfs.FlagReadWrite != 0:
		h.acc = c02RW
	}
	if flag&hackpadfs.FlagTruncate != 0 {
		m.resize(0)
	}
	return h
}

// c02Check compares every handle's offset and size and the file's bytes with the model.
func c02Check(fs c02FS, m *c02Model, hs []*c02H, when string) {
	for _, h := range hs {
		c02Subject(h)
		pos, err := hackpadfs.SeekFile(h.f, 0, io.SeekCurrent)
		verifAssert(err == nil, when+": Seek(0, SeekCurrent) failed")
		verifAssert(pos == h.off, when+": handle offset differs from os.File")
		info, err := h.f.Stat()
		verifAssert(err == nil, when+": Stat on an open handle failed")
		verifAssert(info.Size() == m.size(), when+": handle Stat().Size() differs from the file's current size")
	}
	verifTag("subject", "fresh-open")
	got, err := hackpadfs.ReadFile(fs, "f")
	verifAssert(err == nil, when+": ReadFile failed")
	verifAssert(len(got) == len(m.data), when+": file length differs from os.File")
	for i := range m.data {
		verifAssert(got[i] == m.data[i], when+": file bytes differ from os.File")
	}
}

var c02OpNames = []string{"Read", "ReadAt", "Write", "WriteAt", "Seek", "Truncate"}

// c02Op performs one call with symbolic arguments on handle h and compares with the model.
func c02Op(m *c02Model, h *c02H, id string, op int) {
	maxSize := int64(verifParam("MAXSZ"))
	c02Subject(h)
	switch op {
	case 0: // Read
		n := verifInt(id + ".n")
		verifAssume(n >= 0)
		verifAssume(n <= verifParam("NB"))
		buf := make([]byte, n)
		cnt, err := h.f.Read(buf)
		verifObserve(id+".cnt", int64(cnt))
		avail := m.size() - h.off
		if n == 0 {
			// os.File does not reach the kernel for an empty buffer: (0, nil) whatever the access mode;
			// io.Reader also allows (0, io.EOF) at the end of the file
			verifAssert(cnt == 0, "Read(empty buffer) returned a count")
			if h.acc != c02WO {
				verifAssert(err == nil || (err == io.EOF && avail <= 0), "Read(empty buffer): unexpected error")
			}
			return
		}
		if h.acc == c02WO {
			verifAssert(err != nil && err != io.EOF, "Read on a write-only handle must fail")
			verifAssert(cnt == 0, "Read on a write-only handle returned bytes")
			return
		}
		if avail <= 0 {
			verifAssert(cnt == 0 && err == io.EOF, "Read at or beyond the end must return 0, io.EOF")
			return
		}
		want := int64(n)
		if avail < want {
			want = avail
		}
		verifAssert(int64(cnt) == want, "Read: count differs from os.File")
		verifAssert(err == nil || (err == io.EOF && h.off+want == m.size()), "Read: error differs from os.File (EOF only with the last bytes)")
		for i := int64(0); i < want; i++ {
			verifAssert(buf[i] == m.data[h.off+i], "Read: bytes differ from the file contents")
		}
		h.off += want
		h.loaded = true
	case 1: // ReadAt
		n := verifInt(id + ".n")
		verifAssume(n >= 0)
		verifAssume(n <= verifParam("NB"))
		off := verifInt64(id + ".off")
		verifAssume(off <= 1<<40) // offsets near MaxInt64 are refused by the kernel (EINVAL), not by os.File
		buf := make([]byte, n)
		cnt, err := hackpadfs.ReadAtFile(h.f, buf, off)
		verifObserve(id+".cnt", int64(cnt))
		if off < 0 {
			verifAssert(err != nil && err != io.EOF && cnt == 0, "ReadAt with a negative offset must fail")
			return
		}
		avail := m.size() - off
		if n == 0 {
			verifAssert(cnt == 0, "ReadAt(empty buffer) returned a count")
			if h.acc != c02WO {
				verifAssert(err == nil || (err == io.EOF && avail <= 0), "ReadAt(empty buffer): unexpected error")
			}
			return
		}
		if h.acc == c02WO {
			verifAssert(err != nil && err != io.EOF, "ReadAt on a write-only handle must fail")
			verifAssert(cnt == 0, "ReadAt on a write-only handle returned bytes")
			return
		}
		if avail <= 0 {
			verifAssert(cnt == 0 && err == io.EOF, "ReadAt at or beyond the end must return 0, io.EOF")
			return
		}
		want := int64(n)
		if avail < want {
			want = avail
		}
		verifAssert(int64(cnt) == want, "ReadAt: count differs from os.File")
		if want < int64(n) {
			verifAssert(err == io.EOF, "ReadAt: a short read must return io.EOF")
		} else {
			verifAssert(err == nil || (err == io.EOF && off+want == m.size()), "ReadAt: error differs from os.File")
		}
		for i := int64(0); i < want; i++ {
			verifAssert(buf[i] == m.data[off+i], "ReadAt: bytes differ from the file contents")
		}
		h.loaded = true
	case 2: // Write
		n := verifInt(id + ".n")
		verifAssume(n >= 0)
		verifAssume(n <= verifParam("PB"))
		p := verifBytes(id+".p", n)
		verifAssume(h.off+int64(n) <= maxSize)
		cnt, err := hackpadfs.WriteFile(h.f, p)
		verifObserve(id+".cnt", int64(cnt))
		if h.acc == c02RO {
			verifAssert(err != nil && cnt == 0, "Write on a read-only handle must fail")
			return
		}
		verifAssert(err == nil, "Write on a writable handle failed")
		verifAssert(cnt == n, "Write: count differs from len(p)")
		if n == 0 {
			return
		}
		pos := h.off
		if h.app {
			pos = m.size()
		}
		m.writeAt(p, pos)
		h.off = pos + int64(n)
		h.loaded = true
	case 3: // WriteAt
		n := verifInt(id + ".n")
		verifAssume(n >= 0)
		verifAssume(n <= verifParam("PB"))
		p := verifBytes(id+".p", n)
		off := verifInt64(id + ".off")
		verifAssume(off <= maxSize-int64(n))
		cnt, err := hackpadfs.WriteAtFile(h.f, p, off)
		verifObserve(id+".cnt", int64(cnt))
		if h.app {
			verifAssert(err != nil && cnt == 0, "WriteAt on an O_APPEND handle must fail (os.File refuses it)")
			return
		}
		if off < 0 {
			verifAssert(err != nil && cnt == 0, "WriteAt with a negative offset must fail")
			return
		}
		if n == 0 {
			// os.File.WriteAt does not reach the kernel for an empty payload; nothing may change
			verifAssert(cnt == 0, "WriteAt(empty payload) returned a count")
			return
		}
		if h.acc == c02RO {
			verifAssert(err != nil && cnt == 0, "WriteAt on a read-only handle must fail")
			return
		}
		verifAssert(err == nil, "WriteAt on a writable handle failed")
		verifAssert(cnt == n, "WriteAt: count differs from len(p)")
		m.writeAt(p, off)
		h.loaded = true
	case 4: // Seek
		off := verifInt64(id + ".off")
		verifAssume(off >= -(1 << 40))
		verifAssume(off <= maxSize)
		whence := verifInt(id + ".whence")
		verifAssume(whence != 3) // SEEK_DATA / SEEK_HOLE are Linux extensions of os.File.Seek
		verifAssume(whence != 4)
		verifAssume(whence >= -16) // the kernel only sees the low 32 bits of whence
		verifAssume(whence <= 16)
		pos, err := hackpadfs.SeekFile(h.f, off, whence)
		verifObserve(id+".pos", pos)
		var base int64
		switch whence {
		case io.SeekStart:
		case io.SeekCurrent:
			base = h.off
		case io.SeekEnd:
			base = m.size()
		default:
			verifAssert(err != nil, "Seek with an invalid whence must fail")
			return
		}
		if base+off < 0 {
			verifAssert(err != nil, "Seek to a negative position must fail")
			return
		}
		verifAssert(err == nil, "Seek to a valid position failed")
		verifAssert(pos == base+off, "Seek: returned position differs from os.File")
		h.off = base + off
	case 5: // Truncate
		sz := verifInt64(id + ".size")
		verifAssume(sz <= maxSize)
		err := hackpadfs.TruncateFile(h.f, sz)
		verifObserveBool(id+".err", err != nil)
		if h.acc == c02RO {
			verifAssert(err != nil, "Truncate through a read-only handle must fail")
			return
		}
		if sz < 0 {
			verifAssert(err != nil, "Truncate to a negative size must fail")
			return
		}
		verifAssert(err == nil, "Truncate on a writable handle failed")
		if sz != m.size() {
			h.loaded = true
		}
		m.resize(sz)
	}
}

func c02Setup() (c02FS, *c02Model) {
	fs := c02NewFS()
	l := verifInt("len")
	verifAssume(l >= 0)
	verifAssume(l <= verifParam("L"))
	content := verifBytes("data", l)
	c02Fresh = false
	if verifParam("FRESH") != 0 && l == 0 && verifChoice("fresh", 2) == 1 {
		// the file does not exist yet: the first handle creates it (O_CREATE added to its flags)
		verifTag("file", "created-by-the-open")
		c02Fresh = true
		return fs, &c02Model{}
	}
	verifAssert(hackpadfs.WriteFullFile(fs, "f", content, 0644) == nil, "WriteFullFile failed")
	m := &c02Model{data: append([]byte{}, content...)}
	return fs, m
}

var c02Fresh bool

// c02Prime puts the handle into one of its reachable hidden states before the step.
func c02Prime(m *c02Model, h *c02H, which string) {
	switch verifChoice(which+".prime", 3) {
	case 0:
	case 1:
		info, err := h.f.Stat()
		verifAssert(err == nil && info.Size() == m.size(), "prime: Stat().Size() differs from the file size")
	case 2:
		if h.acc != c02WO {
			buf := make([]byte, 1)
			n, _ := h.f.Read(buf)
			h.off += int64(n)
			if n > 0 {
				h.loaded = true
			}
		}
	}
}

// VerifC02Step: one handle in an arbitrary reachable state (contents, offset, hidden caches), one call.
func VerifC02Step() {
	defer c02Done()
	fs, m := c02Setup()
	h := c02Open(fs, m, "h", verifParam("NFLAGS"))
	c02Prime(m, h, "h")
	// arbitrary offset, reached through the API
	pre := verifInt64("pre.off")
	verifAssume(pre >= 0)
	verifAssume(pre <= int64(verifParam("MAXSZ")))
	pos, err := hackpadfs.SeekFile(h.f, pre, io.SeekStart)
	verifAssert(err == nil && pos == pre, "Seek(SeekStart) to a valid position failed")
	h.off = pre
	op := verifChoice("op", 6)
	verifTag("op", c02OpNames[op])
	before := append([]byte{}, m.data...)
	_ = before
	c02Op(m, h, "c", op)
	verifReach("step-done")
	c02Check(fs, m, []*c02H{h}, "after the call")
}

// VerifC02Two: two handles on the same file, K calls on chosen handles (coherence between handles).
func VerifC02Two() {
	defer c02Done()
	fs, m := c02Setup()
	h1 := c02Open(fs, m, "h1", verifParam("NFLAGS"))
	// the second handle may also be a truncating open (RW+TRUNC, index 5): the first handle must see it
	n2 := verifParam("NFLAGS2")
	if n2 == 0 {
		n2 = verifParam("NFLAGS")
	}
	h2 := c02Open(fs, m, "h2", n2)
	hs := []*c02H{h1, h2}
	c02Prime(m, h1, "h1")
	K := verifParam("K")
	for k := 0; k < K; k++ {
		id := verifName("c", k)
		who := verifChoice(id+".handle", 2)
		op := verifChoice(id+".op", 6)
		verifTag("last-call", c02OpNames[op])
		c02Op(m, hs[who], id, op)
		c02Check(fs, m, hs, "after call")
	}
	verifReach("two-done")
}

// VerifC02Dir: reading a directory handle as bytes fails (and is not an end-of-file).
func VerifC02Dir() {
	defer c02Done()
	fs := c02NewFS()
	verifAssert(fs.Mkdir("d", hackpadfs.FileMode(verifUint32("perm"))|0500) == nil, "Mkdir failed")
	f, err := fs.Open("d")
	verifAssert(err == nil, "Open(dir) failed")
	n := verifInt("n")
	verifAssume(n >= 1)
	verifAssume(n <= 3)
	cnt, err := f.Read(make([]byte, n))
	verifReach("dir-read")
	verifAssert(cnt == 0, "Read on a directory handle returned bytes")
	verifAssert(err != nil && err != io.EOF, "Read on a directory handle must fail (os: EISDIR), not report end of file")
}
