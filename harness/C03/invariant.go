package mount

import (
	"path"
	"strings"
	"time"

	"github.com/hack-pad/hackpadfs"
	"github.com/hack-pad/hackpadfs/keyvalue"
	"github.com/hack-pad/hackpadfs/mem"
)

var c03Kinds = []string{"mem", "plain-store", "mount", "sub-of-mem", "sub-of-mount", "nested-mount", "sub-dot"}

// c03NewFS builds the file system kind under test. For the mount kinds the universe directory "a"
// is a mount point backed by a second mem.FS.
func c03NewFS() hackpadfs.FS {
	kind := verifParam("FSKIND")
	verifTag("fs", c03Kinds[kind])
	return c03NewFSKind(kind)
}

// For views, the pre-state is built through the parent (below c03BuildPrefix): what exists does not depend
// on the view working.
var c03PStore *pStore // the plain store of kind 1 (fault injection)
var c03BuildFS hackpadfs.FS
var c03BuildPrefix string

func c03NewFSKind(kind int) hackpadfs.FS {
	c03BuildFS, c03BuildPrefix = nil, ""
	newMem := func() *mem.FS {
		m, err := mem.NewFS()
		verifAssert(err == nil, "NewFS failed")
		return m
	}
	switch kind {
	case 1:
		c03PStore = pNewStore()
		fs, err := keyvalue.NewFS(c03PStore)
		verifAssert(err == nil, "keyvalue.NewFS failed")
		return fs
	case 2, 4:
		root, inner := newMem(), newMem()
		verifAssert(root.Mkdir("a", 0755) == nil, "Mkdir mount point")
		if kind == 4 {
			verifAssert(root.Mkdir("s", 0755) == nil, "Mkdir s")
		}
		mfs, err := NewFS(root)
		verifAssert(err == nil, "mount.NewFS failed")
		verifAssert(mfs.AddMount("a", inner) == nil, "AddMount failed")
		if kind == 4 {
			// the view's directory is the root itself: everything below goes through the mount FS
			sub, err := hackpadfs.Sub(mfs, ".")
			verifAssert(err == nil, "Sub(mount, .) failed")
			return sub
		}
		return mfs
	case 5:
		// mounts at a and a/a: the longest matching mount point must win for every iteration order
		root, inner, innermost := newMem(), newMem(), newMem()
		verifAssert(root.Mkdir("a", 0755) == nil, "Mkdir mount point")
		verifAssert(inner.Mkdir("a", 0755) == nil, "Mkdir nested mount point")
		mfs, err := NewFS(root)
		verifAssert(err == nil, "mount.NewFS failed")
		verifAssert(mfs.AddMount("a", inner) == nil, "AddMount a failed")
		verifAssert(mfs.AddMount("a/a", innermost) == nil, "AddMount a/a failed")
		return mfs
	case 6:
		// the generic view whose base directory is the root itself
		base := newMem()
		sub, err := hackpadfs.Sub(base, ".")
		verifAssert(err == nil, "Sub(., generic) failed")
		c03BuildFS = base
		return sub
	case 3:
		base := newMem()
		verifAssert(base.Mkdir("s", 0755) == nil, "Mkdir s")
		sub, err := hackpadfs.Sub(base, "s")
		verifAssert(err == nil, "Sub failed")
		c03BuildFS, c03BuildPrefix = base, "s/"
		return sub
	}
	return newMem()
}

// c03SymTree: arbitrary well-formed pre-state through the helpers (no model: the oracle is the invariant).
func c03SymTree(fs hackpadfs.FS) {
	if c03BuildFS != nil {
		fs = c03BuildFS
	}
	for i, p := range rUniverse() {
		p = c03BuildPrefix + p
		id := verifName("n", i)
		switch verifChoice(id+".kind", 3) {
		case 1:
			_ = hackpadfs.WriteFullFile(fs, p, verifBytes(id+".data", 1), rPerm(id+".perm"))
		case 2:
			_ = hackpadfs.Mkdir(fs, p, rPerm(id+".perm"))
		}
	}
}

// c03Invariant: the namespace is a well-formed tree over the whole closure of candidate paths.
func c03Invariant(fs hackpadfs.FS, when string) {
	info, err := hackpadfs.Stat(fs, ".")
	verifAssert(err == nil, when+": the root no longer exists")
	verifAssert(info.IsDir(), when+": the root is no longer a directory")
	for _, p := range rClosure() {
		info, err := hackpadfs.Stat(fs, p)
		f, oerr := fs.Open(p)
		if oerr == nil {
			_ = f.Close()
		}
		if err != nil && oerr != nil {
			continue
		}
		verifAssert(err == nil && oerr == nil, when+": Stat and Open disagree about the existence of a path")
		if p != "." {
			c03ParentInvariant(fs, p, info, when)
		}
		if info.IsDir() {
			// every listed child (the root's included) can be Stat'ed and opened, with the same kind
			children, cerr := hackpadfs.ReadDir(fs, p)
			verifAssert(cerr == nil, when+": an existing directory cannot be listed")
			for _, c := range children {
				cp := path.Join(p, c.Name())
				cinfo, serr := hackpadfs.Stat(fs, cp)
				verifAssert(serr == nil, when+": a listed entry cannot be Stat'ed")
				verifAssert(cinfo.IsDir() == c.IsDir(), when+": kind differs between listing and Stat")
				h, herr := fs.Open(cp)
				verifAssert(herr == nil, when+": a listed entry cannot be opened")
				hinfo, hserr := h.Stat()
				verifAssert(hserr == nil && hinfo.IsDir() == c.IsDir(), when+": kind differs between listing and the opened handle")
				_ = h.Close()
			}
		}
	}
}

// c03ParentInvariant: every path that exists has a parent that is a directory whose listing contains it.
func c03ParentInvariant(fs hackpadfs.FS, p string, info hackpadfs.FileInfo, when string) {
	{
		pinfo, perr := hackpadfs.Stat(fs, path.Dir(p))
		verifAssert(perr == nil, when+": an entry exists whose parent does not exist (orphan)")
		verifAssert(pinfo.IsDir(), when+": an entry exists below a path that is not a directory (hidden entry)")
		entries, lerr := hackpadfs.ReadDir(fs, path.Dir(p))
		verifAssert(lerr == nil, when+": the parent of an existing entry cannot be listed")
		found := 0
		for _, e := range entries {
			if e.Name() == path.Base(p) {
				found++
				verifAssert(e.IsDir() == info.IsDir(), when+": kind differs between listing and Stat")
			}
		}
		verifAssert(found >= 1, when+": an existing entry is missing from its parent's listing (unreachable from the root)")
		verifAssert(found <= 1, when+": an entry appears twice in a listing")
	}
}

// c03Op: one operation with candidate arguments through the helpers, including the degenerate ones
// (removing/renaming the root, renaming a directory into itself, creating below files).
func c03Op(fs hackpadfs.FS) {
	cands := rCandidates()
	op := verifChoice("op", len(rOpNames))
	p := cands[verifChoice("arg", len(cands))]
	verifTag("op", rOpNames[op])
	if p == "." {
		verifTag("arg", "root")
	} else {
		verifTag("arg", "non-root")
	}
	switch op {
	case 0:
		_ = hackpadfs.Mkdir(fs, p, rPerm("perm"))
	case 1:
		_ = hackpadfs.MkdirAll(fs, p, rPerm("perm"))
	case 2:
		f, err := hackpadfs.OpenFile(fs, p, rFlag("flag"), rPerm("perm"))
		if err == nil {
			_ = f.Close()
		}
	case 3:
		_ = hackpadfs.WriteFullFile(fs, p, verifBytes("data", 1), rPerm("perm"))
	case 4:
		_ = hackpadfs.Remove(fs, p)
	case 5:
		_ = hackpadfs.RemoveAll(fs, p)
	case 6:
		// the new name may also be one that is not a valid FS path
		all := append(append([]string{}, cands...), "..", "", "a/", "a//c", "/c", "../c")
		k := verifChoice("arg2", len(all))
		n := all[k]
		if k < len(cands) {
			verifTag("relation", rRelation(p, n))
		} else {
			verifTag("relation", "invalid-new-name")
		}
		_ = hackpadfs.Rename(fs, p, n)
	case 7:
		_ = hackpadfs.Chmod(fs, p, hackpadfs.FileMode(verifUint32("mode")))
	case 8:
		_ = hackpadfs.Chtimes(fs, p, time.Unix(5, 0), time.Unix(7, 0))
	case 9:
		_, _ = hackpadfs.Stat(fs, p)
	case 10:
		_, _ = hackpadfs.ReadDir(fs, p)
	case 11:
		_, _ = hackpadfs.ReadFile(fs, p)
	}
}

// VerifC03Step: from every well-formed pre-state, every operation (successful or not) terminates and
// leaves a well-formed tree.
func VerifC03Step() {
	fs := c03NewFS()
	c03SymTree(fs)
	if verifParam("CHECKPRE") != 0 {
		c03Invariant(fs, "pre-state")
	}
	c03Op(fs)
	verifReach("op-returned")
	c03Invariant(fs, "after the operation")
	verifReach("invariant-checked")
}

// VerifC03Hist: two operations in a row - first one that can make a parent disappear or change kind
// (Remove, RemoveAll, Rename), then one that creates an entry (Mkdir, MkdirAll, WriteFullFile, OpenFile with
// O_CREATE) - from every well-formed pre-state; the tree is well formed after each. What a file system
// remembers from earlier calls (the pre-state is itself built by Mkdir / WriteFullFile calls) must not let an
// entry appear below a missing parent or below a regular file.
func VerifC03Hist() {
	fs := c03NewFS()
	c03SymTree(fs)
	cands := rCandidates()
	full := verifParam("HISTFULL") != 0 // quick: fewer rename targets, only nested targets for the creation
	p := cands[1+verifChoice("arg", len(cands)-1)]
	switch verifChoice("op1", 3) {
	case 0:
		verifTag("op1", "Remove")
		_ = hackpadfs.Remove(fs, p)
	case 1:
		verifTag("op1", "RemoveAll")
		_ = hackpadfs.RemoveAll(fs, p)
	default:
		verifTag("op1", "Rename")
		n2 := len(cands) - 1
		if !full {
			n2 = 3
		}
		_ = hackpadfs.Rename(fs, p, cands[1+verifChoice("arg2", n2)])
	}
	c03Invariant(fs, "after the first operation")
	var deeper []string
	for _, c := range cands {
		if full || strings.Contains(c, "/") {
			deeper = append(deeper, c)
		}
	}
	q := deeper[verifChoice("arg3", len(deeper))]
	nop2 := 4
	if !full {
		nop2 = 3
	}
	switch verifChoice("op2", nop2) {
	case 0:
		verifTag("op2", "Mkdir")
		_ = hackpadfs.Mkdir(fs, q, 0755)
	case 1:
		verifTag("op2", "MkdirAll")
		_ = hackpadfs.MkdirAll(fs, q, 0755)
	case 2:
		verifTag("op2", "WriteFullFile")
		_ = hackpadfs.WriteFullFile(fs, q, []byte{1}, 0644)
	default:
		verifTag("op2", "OpenFile(O_CREATE)")
		if f, err := hackpadfs.OpenFile(fs, q, hackpadfs.FlagReadWrite|hackpadfs.FlagCreate, 0644); err == nil {
			_ = f.Close()
		}
	}
	verifReach("op-returned")
	c03Invariant(fs, "after the second operation")
	verifReach("invariant-checked")
}

// VerifC03Faults: a multi-step operation (Rename of a directory with children, MkdirAll of several levels,
// RemoveAll of a subtree) on keyvalue.FS over a plain store that rejects one of the operation's store calls:
// whatever the operation answers, the tree it leaves behind is well formed - the steps are ordered so that a
// failure part-way never leaves an entry without its parent.
func VerifC03Faults() {
	fs := c03NewFSKind(1)
	c03SymTree(fs)
	cands := rCandidates()
	fault := verifInt("fault")
	verifAssume(fault >= 0)
	verifAssume(fault <= verifParam("MAXFAULT"))
	c03PStore.calls, c03PStore.faultAt = 0, fault
	p := cands[1+verifChoice("arg", len(cands)-1)]
	switch verifChoice("op", 3) {
	case 0:
		verifTag("op", "Rename")
		_ = hackpadfs.Rename(fs, p, cands[1+verifChoice("arg2", len(cands)-1)])
	case 1:
		verifTag("op", "MkdirAll")
		_ = hackpadfs.MkdirAll(fs, p, 0755)
	default:
		verifTag("op", "RemoveAll")
		_ = hackpadfs.RemoveAll(fs, p)
	}
	c03PStore.faultAt = -1
	verifReach("op-returned")
	if c03PStore.fired {
		verifReach("fault-fired")
	}
	c03Invariant(fs, "after an operation with a rejected store call")
	verifReach("invariant-checked")
}
