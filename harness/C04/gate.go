package mount

import (
	"errors"
	iofs "io/fs"
	"strings"
	"time"

	"github.com/hack-pad/hackpadfs"
	"github.com/hack-pad/hackpadfs/cache"
	"github.com/hack-pad/hackpadfs/mem"
)

var c04Kinds = []string{"mem", "plain-store", "mount", "sub-of-mem", "cache"}

// c04NewFS returns the FS under test plus the writable FS through which the pre-state is built
// (for the read-only cache: its source).
func c04NewFS() (fs hackpadfs.FS, build hackpadfs.FS) {
	kind := verifParam("FSKIND")
	verifTag("fs", c04Kinds[kind])
	if kind == 4 {
		src, err := mem.NewFS()
		verifAssert(err == nil, "NewFS failed")
		store, err := mem.NewFS()
		verifAssert(err == nil, "NewFS failed")
		cfs, err := cache.NewReadOnlyFS(src, store, cache.ReadOnlyOptions{})
		verifAssert(err == nil, "NewReadOnlyFS failed")
		return cfs, src
	}
	var k int
	switch kind {
	case 1:
		k = 1
	case 2:
		k = 2
	case 3:
		k = 3
	}
	f := c03NewFSKind(k)
	return f, f
}

// c04Pre: a fixed small tree (contents symbolic): a/ (dir; a mount point in the mount kind), a/a (file), b (file)
func c04Pre(build hackpadfs.FS, t *rTree) {
	if t.kind("a") == rAbsent {
		verifAssert(hackpadfs.Mkdir(build, "a", 0755) == nil, "pre: Mkdir a")
		t.mkdir("a", 0755)
	}
	da, db := verifBytes("data.aa", 1), verifBytes("data.b", 1)
	verifAssert(hackpadfs.WriteFullFile(build, "a/a", da, 0644) == nil, "pre: WriteFullFile a/a")
	t.writeFile("a/a", da, 0644)
	verifAssert(hackpadfs.WriteFullFile(build, "b", db, 0600) == nil, "pre: WriteFullFile b")
	t.writeFile("b", db, 0600)
}

var c04Methods = []string{"Open", "OpenFile", "Create", "Mkdir", "MkdirAll", "Remove", "RemoveAll", "Stat", "Lstat", "LstatOrStat", "Chmod", "Chown", "Chtimes", "ReadDir", "ReadFile", "WriteFullFile", "Sub", "Rename(invalid,valid)", "Rename(valid,invalid)", "Rename(invalid,invalid)", "Symlink(invalid,valid)", "Symlink(valid,invalid)"}

func c04Call(fs hackpadfs.FS, m int, name string) error {
	switch m {
	case 0:
		f, err := fs.Open(name)
		if err == nil {
			_ = f.Close()
		}
		return err
	case 1:
		f, err := hackpadfs.OpenFile(fs, name, hackpadfs.FlagReadWrite|hackpadfs.FlagCreate, 0644)
		if err == nil {
			_ = f.Close()
		}
		return err
	case 2:
		f, err := hackpadfs.Create(fs, name)
		if err == nil {
			_ = f.Close()
		}
		return err
	case 3:
		return hackpadfs.Mkdir(fs, name, 0755)
	case 4:
		return hackpadfs.MkdirAll(fs, name, 0755)
	case 5:
		return hackpadfs.Remove(fs, name)
	case 6:
		return hackpadfs.RemoveAll(fs, name)
	case 7:
		_, err := hackpadfs.Stat(fs, name)
		return err
	case 8:
		_, err := hackpadfs.Lstat(fs, name)
		return err
	case 9:
		_, err := hackpadfs.LstatOrStat(fs, name)
		return err
	case 10:
		return hackpadfs.Chmod(fs, name, 0600)
	case 11:
		return hackpadfs.Chown(fs, name, 1, 1)
	case 12:
		return hackpadfs.Chtimes(fs, name, time.Unix(1, 0), time.Unix(2, 0))
	case 13:
		_, err := hackpadfs.ReadDir(fs, name)
		return err
	case 14:
		_, err := hackpadfs.ReadFile(fs, name)
		return err
	case 15:
		return hackpadfs.WriteFullFile(fs, name, []byte{1}, 0644)
	case 16:
		_, err := hackpadfs.Sub(fs, name)
		return err
	case 17:
		return hackpadfs.Rename(fs, name, "c")
	case 18:
		if verifChoice("old", 2) == 0 {
			verifTag("old", "file")
			return hackpadfs.Rename(fs, "b", name)
		}
		verifTag("old", "dir")
		return hackpadfs.Rename(fs, "a", name)
	case 19:
		return hackpadfs.Rename(fs, name, name)
	case 20:
		return hackpadfs.Symlink(fs, name, "c")
	default:
		return hackpadfs.Symlink(fs, "b", name)
	}
}

func c04Name() string {
	n := verifChoice("name.len", verifParam("NAMELEN")+1)
	return verifString("name", n)
}

// VerifC04Gate: an invalid name makes every operation fail with ErrInvalid and changes nothing.
func VerifC04Gate() {
	fs, build := c04NewFS()
	t := rNewTree()
	if verifParam("FSKIND") == 2 {
		t.mkdir("a", 0666) // the mount point shows the mounted FS's root (created with 0666)
	}
	c04Pre(build, t)
	name := c04Name()
	// the reference for validity is io/fs.ValidPath itself, not the library's wrapper around it
	verifAssume(!iofs.ValidPath(name))
	if verifParam("FSKIND") == 4 && verifChoice("warm", 2) == 1 {
		// the cache has already served every existing entry under its valid name
		verifTag("cache", "warm")
		for _, p := range []string{".", "a", "a/a", "b"} {
			_, serr := hackpadfs.Stat(fs, p)
			verifAssert(serr == nil, "warm-up Stat failed")
			f, oerr := fs.Open(p)
			verifAssert(oerr == nil, "warm-up Open failed")
			if p == "." || p == "a" {
				// listings too (by name and through the handle)
				_, lerr := hackpadfs.ReadDir(fs, p)
				verifAssert(lerr == nil, "warm-up ReadDir failed")
				_, _ = hackpadfs.ReadDirFile(f, -1)
			}
			_ = f.Close()
		}
	}
	m := verifChoice("method", len(c04Methods))
	verifTag("method", c04Methods[m])
	err := c04Call(fs, m, name)
	verifReach("called")
	verifAssert(err != nil, "an operation accepted a name that is not a valid FS path")
	notSupported := errors.Is(err, hackpadfs.ErrNotImplemented)
	if notSupported {
		// the composition does not offer the operation at all (e.g. Chown, Symlink, writes on the cache)
		verifTag("support", "not-implemented")
	} else {
		verifAssert(errors.Is(err, hackpadfs.ErrInvalid), "the error for an invalid name must match ErrInvalid")
	}
	rCompare(build, t, "after the call with an invalid name")
}

// VerifC04Accept: a valid name free of NUL bytes is never refused as invalid; backslash and colon are
// ordinary name bytes.
func VerifC04Accept() {
	fs, build := c04NewFS()
	t := rNewTree()
	if verifParam("FSKIND") == 2 {
		t.mkdir("a", 0666)
	}
	c04Pre(build, t)
	name := c04Name()
	verifAssume(iofs.ValidPath(name))
	verifAssume(strings.IndexByte(name, 0) < 0)
	m := verifChoice("method", 19) // single-name operations, and renames of an existing entry to the name
	if m >= 17 {
		// a valid new name is never refused as invalid (moving a directory below itself and replacing the root are)
		old := []string{"a", "b"}[m-17]
		verifTag("method", "Rename("+old+",valid)")
		verifAssume(name != ".")
		verifAssume(!strings.HasPrefix(name, old+"/"))
		if verifParam("FSKIND") == 2 {
			verifAssume(old != "a") // the mount point itself (finding C05-K2)
		}
		err := hackpadfs.Rename(fs, old, name)
		verifReach("called")
		verifAssert(err == nil || !errors.Is(err, hackpadfs.ErrInvalid), "a valid rename target was refused as invalid")
		return
	}
	verifTag("method", c04Methods[m])
	if m == 5 || m == 6 {
		verifAssume(name != ".") // removing the root is refused with EINVAL by os as well
		if verifParam("FSKIND") == 2 {
			verifAssume(name != "a") // the mount point is the root of the mounted FS (finding C05-K2)
		}
	}
	err := c04Call(fs, m, name)
	verifReach("called")
	verifAssert(err == nil || !errors.Is(err, hackpadfs.ErrInvalid), "a valid name was refused as invalid")
}

// VerifC04Separators: a single-element name containing backslash or colon creates exactly one root
// child with exactly that name.
func VerifC04Separators() {
	fs, _ := c04NewFS()
	n := 1 + verifChoice("name.len", verifParam("NAMELEN"))
	name := verifString("name", n)
	verifAssume(iofs.ValidPath(name))
	verifAssume(strings.IndexByte(name, 0) < 0)
	verifAssume(strings.IndexByte(name, '/') < 0)
	verifAssume(strings.IndexByte(name, '\\') >= 0 || strings.IndexByte(name, ':') >= 0)
	verifAssume(name != "a")
	verifAssert(hackpadfs.Mkdir(fs, name, 0755) == nil, "Mkdir of a valid single-element name failed")
	entries, err := hackpadfs.ReadDir(fs, ".")
	verifAssert(err == nil, "ReadDir failed")
	found := 0
	for _, e := range entries {
		if e.Name() == name {
			found++
		} else {
			verifAssert(e.Name() == "a" || e.Name() == "s", "a separator-like byte was interpreted: unexpected root child")
		}
	}
	verifReach("listed")
	verifAssert(found == 1, "the root must list exactly one child with exactly the given name")
}
