package mount

import (
	"errors"

	"github.com/hack-pad/hackpadfs"
	"github.com/hack-pad/hackpadfs/mem"
)

// c05Faulty is a mounted file system in which one kind of call fails with an injected error that
// names the path inside the mounted file system (as every real FS does).
type c05Faulty struct {
	fs   *mem.FS
	fail int // 0 none, 1 Open, 2 OpenFile, 3 Chmod, 4 Remove, 5 Stat
}

var errC05Injected = errors.New("injected failure")

func (f *c05Faulty) err(op, name string, k int) error {
	if f.fail == k {
		return &hackpadfs.PathError{Op: op, Path: name, Err: errC05Injected}
	}
	return nil
}

func (f *c05Faulty) Open(name string) (hackpadfs.File, error) {
	if err := f.err("open", name, 1); err != nil {
		return nil, err
	}
	return f.fs.Open(name)
}

func (f *c05Faulty) OpenFile(name string, flag int, perm hackpadfs.FileMode) (hackpadfs.File, error) {
	if err := f.err("open", name, 2); err != nil {
		return nil, err
	}
	return f.fs.OpenFile(name, flag, perm)
}

func (f *c05Faulty) Chmod(name string, mode hackpadfs.FileMode) error {
	if err := f.err("chmod", name, 3); err != nil {
		return err
	}
	return f.fs.Chmod(name, mode)
}

func (f *c05Faulty) Remove(name string) error {
	if err := f.err("remove", name, 4); err != nil {
		return err
	}
	return f.fs.Remove(name)
}

func (f *c05Faulty) Stat(name string) (hackpadfs.FileInfo, error) {
	if err := f.err("stat", name, 5); err != nil {
		return nil, err
	}
	return f.fs.Stat(name)
}

func (f *c05Faulty) Mkdir(name string, perm hackpadfs.FileMode) error { return f.fs.Mkdir(name, perm) }

// VerifC05CrossRename: a rename between two mounted file systems in which one inner step fails
// (open of the source, create of the destination, chmod of the destination, removal of the source, or the
// first look-up): the failure is a *LinkError naming the caller's old and new paths and carrying the inner cause,
// never an inner error that names a path inside a mounted file system.
func VerifC05CrossRename() {
	newMem := func() *mem.FS {
		m, err := mem.NewFS()
		verifAssert(err == nil, "NewFS failed")
		return m
	}
	root := newMem()
	verifAssert(root.Mkdir("src", 0755) == nil, "Mkdir src")
	verifAssert(root.Mkdir("dst", 0755) == nil, "Mkdir dst")
	srcFS := &c05Faulty{fs: newMem()}
	dstFS := &c05Faulty{fs: newMem()}
	mfs, err := NewFS(root)
	verifAssert(err == nil, "mount.NewFS failed")
	verifAssert(mfs.AddMount("src", srcFS) == nil, "AddMount src")
	verifAssert(mfs.AddMount("dst", dstFS) == nil, "AddMount dst")
	verifAssert(srcFS.fs.Mkdir("d", 0755) == nil, "Mkdir d")
	verifAssert(hackpadfs.WriteFullFile(srcFS.fs, "d/f", verifBytes("data", 1), 0644) == nil, "create source")
	if verifChoice("dest-exists", 2) == 1 {
		verifAssert(hackpadfs.WriteFullFile(dstFS.fs, "g", verifBytes("old", 1), 0600) == nil, "create destination")
	}
	step := verifChoice("failing-step", 5)
	verifTag("failing-step", []string{"source Open", "destination OpenFile", "destination Chmod", "source Remove", "source Stat"}[step])
	switch step {
	case 0:
		srcFS.fail = 1
	case 1:
		dstFS.fail = 2
	case 2:
		dstFS.fail = 3
	case 3:
		srcFS.fail = 4
	default:
		srcFS.fail = 5
	}
	err = mfs.Rename("src/d/f", "dst/g")
	verifReach("renamed")
	verifAssert(err != nil, "the rename succeeded although one of its steps failed")
	le, ok := err.(*hackpadfs.LinkError)
	verifAssert(ok, "a failed cross-mount rename is not a *LinkError")
	verifAssert(le.Old == "src/d/f" && le.New == "dst/g", "the LinkError does not name the caller's old and new paths")
	verifAssert(errors.Is(err, errC05Injected), "the LinkError does not carry the inner cause")
	// and the file is not lost: whichever step failed, its complete bytes are still at the source or already
	// at the destination (C06: a failed move does not destroy what it moves)
	srcFS.fail, dstFS.fail = 0, 0
	want := verifBytes("data", 1)
	atSrc, e1 := hackpadfs.ReadFile(srcFS.fs, "d/f")
	atDst, e2 := hackpadfs.ReadFile(dstFS.fs, "g")
	okSrc := e1 == nil && len(atSrc) == 1 && atSrc[0] == want[0]
	okDst := e2 == nil && len(atDst) == 1 && atDst[0] == want[0]
	verifAssert(okSrc || okDst, "after a failed cross-mount rename the file is neither at the source nor at the destination")
}
