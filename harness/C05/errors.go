package mount

import (
	"errors"
	"syscall"

	"github.com/hack-pad/hackpadfs"
	"github.com/hack-pad/hackpadfs/mem"
)

var c05Kinds = []string{"mem", "plain-store", "mount-below", "mount-above", "sub-of-mem", "sub-of-mount", "mount-at-a/a"}

// c05NewFS: layer stacks whose namespace is the model's single tree.
//   mount-below: the universe lives below a mount point: the caller's "x" is "m/x" of a mount.FS viewed through Sub(.., "m")?  no:
//   mount-below: mount.FS with an empty root FS; the whole universe is operated as given, directory "a" is a mount point (depth 1)
//   mount-above: the FS under test is a mount.FS whose root FS holds the universe; an unrelated mount exists at "zz" (depth 0)
func c05NewFS() hackpadfs.FS {
	kind := verifParam("FSKIND")
	verifTag("fs", c05Kinds[kind])
	newMem := func() *mem.FS {
		m, err := mem.NewFS()
		verifAssert(err == nil, "NewFS failed")
		return m
	}
	switch kind {
	case 1:
		return c03NewFSKind(1)
	case 2:
		root, inner := newMem(), newMem()
		verifAssert(root.Mkdir("a", 0777) == nil, "Mkdir mount point")
		mfs, err := NewFS(root)
		verifAssert(err == nil, "mount.NewFS failed")
		verifAssert(mfs.AddMount("a", inner) == nil, "AddMount failed")
		return mfs
	case 3:
		root, other := newMem(), newMem()
		verifAssert(root.Mkdir("zz", 0777) == nil, "Mkdir mount point")
		mfs, err := NewFS(root)
		verifAssert(err == nil, "mount.NewFS failed")
		verifAssert(mfs.AddMount("zz", other) == nil, "AddMount failed")
		return mfs
	case 4:
		base := newMem()
		verifAssert(base.Mkdir("s", 0777) == nil, "Mkdir s")
		sub, err := hackpadfs.Sub(base, "s")
		verifAssert(err == nil, "Sub failed")
		return sub
	case 6:
		// a mount point two levels down whose last element repeats (a/a): paths inside it look like a/a/a
		root, inner := newMem(), newMem()
		verifAssert(root.MkdirAll("a/a", 0777) == nil, "MkdirAll mount point")
		mfs, err := NewFS(root)
		verifAssert(err == nil, "mount.NewFS failed")
		verifAssert(mfs.AddMount("a/a", inner) == nil, "AddMount failed")
		return mfs
	case 5:
		root, inner := newMem(), newMem()
		verifAssert(root.Mkdir("m", 0777) == nil, "Mkdir mount point")
		mfs, err := NewFS(root)
		verifAssert(err == nil, "mount.NewFS failed")
		verifAssert(mfs.AddMount("m", inner) == nil, "AddMount failed")
		sub, err := hackpadfs.Sub(mfs, "m")
		verifAssert(err == nil, "Sub(mount, m) failed")
		return sub
	}
	return newMem()
}

var c05Sentinels = []error{hackpadfs.ErrNotExist, hackpadfs.ErrExist, hackpadfs.ErrIsDir, hackpadfs.ErrNotDir, hackpadfs.ErrNotEmpty, hackpadfs.ErrInvalid}
var c05SentinelNames = []string{"ErrNotExist", "ErrExist", "ErrIsDir", "ErrNotDir", "ErrNotEmpty", "ErrInvalid"}

// VerifC05Step: whenever the operation fails where os fails too, the error is typed, names the
// caller's path (the one os names) and matches every sentinel the os error matches.
func VerifC05Step() {
	fs := c05NewFS()
	t := rNewTree()
	if verifParam("FSKIND") == 2 {
		// "a" already exists as the mount point
		e, _ := t.mkdir("a", 0777)
		verifAssert(e == 0, "model mkdir a")
	}
	if verifParam("FSKIND") == 6 {
		e, _ := t.mkdir("a", 0777)
		verifAssert(e == 0, "model mkdir a")
		e, _ = t.mkdir("a/a", 0666) // the mount point shows the mounted FS's root
		verifAssert(e == 0, "model mkdir a/a")
	}
	c05SymTree(fs, t)
	op := verifChoice("op", len(rOpNames))
	cands := rCandidates()
	argIdx := -1
	_ = argIdx
	r := rStep(fs, t, op, false)
	if r.err == nil || r.errno == 0 {
		verifReach("not-a-common-failure")
		return
	}
	verifReach("both-fail")
	if verifParam("FSKIND") == 2 && (rLastArg == "a" || rLastArg2 == "a") {
		verifTag("involves", "mount-point")
	}
	if verifParam("FSKIND") == 6 && (rLastArg == "a/a" || rLastArg2 == "a/a" || rLastArg == "a" || rLastArg2 == "a") {
		verifTag("involves", "mount-point")
	}
	verifTag("os-errno", r.errno.Error())
	// recover the arguments from the recorded choices is not possible here: rStep reports them
	if op == 6 {
		le, ok := r.err.(*hackpadfs.LinkError)
		verifAssert(ok, "a failing Rename must return a *hackpadfs.LinkError")
		verifAssert(le.Old == rLastArg && le.New == rLastArg2, "LinkError must name the caller's old and new paths")
	} else {
		pe, ok := r.err.(*hackpadfs.PathError)
		verifAssert(ok, "a failing single-name operation must return a *PathError")
		verifObserveStr("path", pe.Path)
		verifAssert(pe.Path != "", "PathError.Path is empty")
		verifAssert(pe.Path == r.epath, "PathError.Path differs from the path os names (in the caller's namespace)")
	}
	if errors.Is(r.err, hackpadfs.ErrNotImplemented) {
		// an operation this composition does not support (Rename through a generic Sub view, moving a
		// directory across mounts) fails with ErrNotImplemented: typed and named as above, class exempt
		verifReach("unsupported")
		return
	}
	for i, s := range c05Sentinels {
		if errors.Is(syscall.Errno(r.errno), s) {
			verifTag("sentinel", c05SentinelNames[i])
			verifAssert(errors.Is(r.err, s), "the error does not match the sentinel that the os error matches")
		}
	}
	_ = cands
}

// c05SymTree: like rSymTree but tolerant of nodes that already exist (mount points).
func c05SymTree(fs hackpadfs.FS, t *rTree) {
	for i, p := range rUniverse() {
		if t.kind(pathDir(p)) != rDir || t.kind(p) != rAbsent {
			continue
		}
		id := verifName("n", i)
		switch verifChoice(id+".kind", 3) {
		case 1:
			perm := rPerm(id + ".perm")
			data := verifBytes(id+".data", 1)
			verifAssert(hackpadfs.WriteFullFile(fs, p, data, perm) == nil, "pre-state: WriteFullFile failed")
			e, _ := t.writeFile(p, data, perm)
			verifAssert(e == 0, "pre-state: model refused WriteFile")
		case 2:
			perm := rPerm(id + ".perm")
			verifAssert(hackpadfs.Mkdir(fs, p, perm) == nil, "pre-state: Mkdir failed")
			e, _ := t.mkdir(p, perm)
			verifAssert(e == 0, "pre-state: model refused Mkdir")
		}
	}
}
