package tar

import (
	"context"
	"errors"

	"github.com/hack-pad/hackpadfs"
	"github.com/hack-pad/hackpadfs/cache"
	"github.com/hack-pad/hackpadfs/mem"
)

// VerifC05ReadOnly: the read-only layers (cache over mem, tar after Done, Sub views of both):
// failing Open / Stat / ReadDir / ReadFile calls are *PathErrors naming the caller's path and match
// the sentinel os would report; C04's gate for tar and cache: invalid names match ErrInvalid.
func VerifC05ReadOnly() {
	var fsys hackpadfs.FS
	kind := verifChoice("layer", 5)
	verifTag("layer", []string{"cache", "tar", "sub-of-cache", "sub-of-tar", "tar-after-failed-unpacking"}[kind])
	if kind == 4 {
		// unpacking fails with an error that is itself a *PathError about another path (a/b below the regular
		// file a): every later Open fails, naming the caller's path
		verifTarAdd("a", int('0'), 0644, 153601, 1)
		verifTarAdd("a/b", int('0'), 0644, 1, 2)
		tfs, err := NewReaderFS(context.Background(), verifTarReader(-1, -1), ReaderFSOptions{})
		verifAssert(err == nil, "NewReaderFS")
		<-tfs.Done()
		verifAssert(tfs.UnarchiveErr() != nil, "unpacking an entry below a regular file succeeded")
		name := []string{"x", "a", "a/b", ".", "d/f"}[verifChoice("name", 5)]
		f, err := tfs.Open(name)
		verifReach("called")
		if err == nil {
			_ = f.Close()
		}
		verifAssert(err != nil, "Open succeeded after unpacking failed")
		pe, ok := err.(*hackpadfs.PathError)
		verifAssert(ok, "the failure is not a *PathError")
		verifAssert(pe.Path == name, "PathError.Path is not the caller's path")
		return
	}
	prefix := ""
	switch kind {
	case 0, 2:
		src, err := mem.NewFS()
		verifAssert(err == nil, "NewFS")
		verifAssert(src.Mkdir("d", 0755) == nil, "Mkdir d")
		verifAssert(hackpadfs.WriteFullFile(src, "d/f", verifBytes("data", 1), 0644) == nil, "WriteFullFile")
		store, err := mem.NewFS()
		verifAssert(err == nil, "NewFS")
		cfs, err := cache.NewReadOnlyFS(src, store, cache.ReadOnlyOptions{})
		verifAssert(err == nil, "NewReadOnlyFS")
		fsys = cfs
	default:
		verifTarAdd("d/", int('5'), 0755, 0, 1)
		verifTarAdd("d/f", int('0'), 0644, 1, 2)
		tfs, err := NewReaderFS(context.Background(), verifTarReader(-1, -1), ReaderFSOptions{})
		verifAssert(err == nil, "NewReaderFS")
		<-tfs.Done()
		verifAssert(tfs.UnarchiveErr() == nil, "unpacking failed")
		fsys = tfs
	}
	if kind >= 2 {
		sub, err := hackpadfs.Sub(fsys, "d")
		verifAssert(err == nil, "Sub failed")
		fsys = sub
		prefix = "d/"
	}
	_ = prefix
	type tc struct {
		name     string
		sentinel error
	}
	cases := []tc{{"missing", hackpadfs.ErrNotExist}, {"f/x", nil}, {"../f", hackpadfs.ErrInvalid}, {"", hackpadfs.ErrInvalid}, {"f/", hackpadfs.ErrInvalid}}
	if kind < 2 {
		cases = []tc{{"missing", hackpadfs.ErrNotExist}, {"d/missing", hackpadfs.ErrNotExist}, {"d/f/x", nil}, {"d/../d", hackpadfs.ErrInvalid}, {"", hackpadfs.ErrInvalid}, {"/d", hackpadfs.ErrInvalid}}
	}
	c := cases[verifChoice("case", len(cases))]
	op := verifChoice("op", 4)
	verifTag("op", []string{"Open", "Stat", "ReadDir", "ReadFile"}[op])
	var err error
	switch op {
	case 0:
		var f hackpadfs.File
		f, err = fsys.Open(c.name)
		if err == nil {
			_ = f.Close()
		}
	case 1:
		_, err = hackpadfs.Stat(fsys, c.name)
	case 2:
		_, err = hackpadfs.ReadDir(fsys, c.name)
	default:
		_, err = hackpadfs.ReadFile(fsys, c.name)
	}
	verifReach("called")
	verifAssert(err != nil, "a call on a missing or invalid name succeeded")
	pe, ok := err.(*hackpadfs.PathError)
	verifAssert(ok, "the failure is not a *PathError")
	verifAssert(pe.Path == c.name, "PathError.Path is not the caller's path")
	if c.sentinel != nil {
		verifAssert(errors.Is(err, c.sentinel), "the error does not match the expected sentinel")
	}
}
