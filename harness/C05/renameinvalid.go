package mount

import (
	"errors"

	"github.com/hack-pad/hackpadfs"
)

// VerifC05RenameInvalid: a Rename whose old or new name is not a valid path fails with a *LinkError that
// carries exactly the strings the caller passed (no cleaning, no translation) and matches ErrInvalid -
// on every layer stack, with the source existing as a file or a directory, inside and outside a mount.
func VerifC05RenameInvalid() {
	fs := c05NewFS()
	verifAssert(hackpadfs.MkdirAll(fs, "a/d", 0755) == nil, "MkdirAll a/d")
	verifAssert(hackpadfs.WriteFullFile(fs, "a/f", verifBytes("data", 1), 0644) == nil, "WriteFullFile a/f")
	verifAssert(hackpadfs.WriteFullFile(fs, "g", verifBytes("data2", 1), 0644) == nil, "WriteFullFile g")
	valid := []string{"a/f", "a/d", "g", "a/new", "new"}
	invalid := []string{"a//b", "a/b/", "./b", "a/../b", "/b", "", "a/./b", "a/d/..", "b\x00/../c/"}
	v := valid[verifChoice("valid", len(valid))]
	iv := invalid[verifChoice("invalid", len(invalid))]
	var oldname, newname string
	switch verifChoice("which", 3) {
	case 0:
		oldname, newname = v, iv
		verifTag("invalid", "new")
	case 1:
		oldname, newname = iv, v
		verifTag("invalid", "old")
	default:
		oldname, newname = iv, invalid[verifChoice("invalid2", len(invalid))]
		verifTag("invalid", "both")
	}
	err := hackpadfs.Rename(fs, oldname, newname)
	verifReach("renamed")
	verifAssert(err != nil, "Rename with an invalid name succeeded")
	if errors.Is(err, hackpadfs.ErrNotImplemented) {
		return // the composition does not offer Rename (generic Sub view)
	}
	le, ok := err.(*hackpadfs.LinkError)
	verifAssert(ok, "a failing Rename must return a *hackpadfs.LinkError")
	verifAssert(le.Old == oldname && le.New == newname, "LinkError must carry exactly the caller's old and new names")
	verifAssert(errors.Is(err, hackpadfs.ErrInvalid), "Rename with an invalid name must match ErrInvalid")
}
