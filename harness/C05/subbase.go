package mount

import (
	"time"

	"github.com/hack-pad/hackpadfs"
	"github.com/hack-pad/hackpadfs/mem"
)

// VerifC05SubBase: a Sub view whose base is not (or no longer) a directory. Every operation below it
// fails in the underlying FS on the base itself or on a path below it; whatever path the underlying
// error names, the error the view returns is typed and names a path of the *view's* namespace: the
// caller's name, or (MkdirAll, which like os.MkdirAll names the ancestor that is in the way) an
// ancestor of it, the view's root "." included. The base's own spelling never leaks.
func VerifC05SubBase() {
	base, err := mem.NewFS()
	verifAssert(err == nil, "NewFS failed")
	basePath := []string{"s", "top/s", "s/s"}[verifChoice("base", 3)]
	verifTag("base", basePath)
	if basePath != "s" {
		verifAssert(hackpadfs.MkdirAll(base, pathDir(basePath), 0777) == nil, "MkdirAll parent of base")
	}
	state := verifChoice("base-state", 3)
	verifTag("base-state", []string{"regular file", "removed after Sub", "directory"}[state])
	if state == 0 {
		verifAssert(hackpadfs.WriteFullFile(base, basePath, verifBytes("data", 1), 0644) == nil, "WriteFullFile base")
	} else {
		verifAssert(base.Mkdir(basePath, 0777) == nil, "Mkdir base")
	}
	sub, err := hackpadfs.Sub(base, basePath)
	verifAssert(err == nil, "Sub failed")
	if state == 1 {
		verifAssert(base.Remove(basePath) == nil, "Remove base")
	}
	names := []string{".", "a", "a/b", "s", "s/a"}
	name := names[verifChoice("name", len(names))]
	verifTag("name", name)
	ops := []string{"Mkdir", "MkdirAll", "OpenFile(create)", "Open", "Stat", "Remove", "Chmod", "ReadDir", "ReadFile", "WriteFullFile", "Chtimes"}
	op := verifChoice("op", len(ops))
	verifTag("op", ops[op])
	switch op {
	case 0:
		err = hackpadfs.Mkdir(sub, name, 0755)
	case 1:
		err = hackpadfs.MkdirAll(sub, name, 0755)
	case 2:
		var f hackpadfs.File
		f, err = hackpadfs.OpenFile(sub, name, hackpadfs.FlagWriteOnly|hackpadfs.FlagCreate, 0644)
		if err == nil {
			_ = f.Close()
		}
	case 3:
		var f hackpadfs.File
		f, err = sub.Open(name)
		if err == nil {
			_ = f.Close()
		}
	case 4:
		_, err = hackpadfs.Stat(sub, name)
	case 5:
		err = hackpadfs.Remove(sub, name)
	case 6:
		err = hackpadfs.Chmod(sub, name, 0600)
	case 7:
		_, err = hackpadfs.ReadDir(sub, name)
	case 8:
		_, err = hackpadfs.ReadFile(sub, name)
	case 9:
		err = hackpadfs.WriteFullFile(sub, name, verifBytes("w", 1), 0644)
	case 10:
		err = hackpadfs.Chtimes(sub, name, time.Unix(5, 0), time.Unix(7, 0))
	}
	verifReach("returned")
	if err == nil {
		return
	}
	verifReach("failed")
	pe, ok := err.(*hackpadfs.PathError)
	verifAssert(ok, "a failing single-name operation through a Sub view must return a *PathError")
	verifObserveStr("path", pe.Path)
	okPath := pe.Path == name
	if op == 1 {
		// MkdirAll names the ancestor in the way: any ancestor of the caller's name in the view's namespace
		for p := name; p != "."; {
			p = pathDir(p)
			if pe.Path == p {
				okPath = true
			}
		}
	}
	verifAssert(okPath, "the error of a Sub view whose base is not a directory names a path outside the caller's namespace (not the caller's name, nor - MkdirAll - one of its ancestors in the view)")
}
