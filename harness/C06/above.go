package mount

import (
	"github.com/hack-pad/hackpadfs"
	"github.com/hack-pad/hackpadfs/mem"
)

// VerifC06Above: an operation addressed at a directory ABOVE a mount point is routed to the file system
// that holds that directory and takes effect only there: whatever it answers, the file system mounted
// below stays exactly as it was (the walk of RemoveAll, in particular, must not descend through the mount
// point into the mounted file system).
func VerifC06Above() {
	root, err := mem.NewFS()
	verifAssert(err == nil, "NewFS")
	inner, err := mem.NewFS()
	verifAssert(err == nil, "NewFS")
	verifAssert(root.MkdirAll("d/m", 0755) == nil, "MkdirAll d/m")
	verifAssert(hackpadfs.WriteFullFile(root, "d/r", verifBytes("r", 1), 0644) == nil, "WriteFullFile d/r")
	verifAssert(hackpadfs.WriteFullFile(inner, "x", verifBytes("x", 1), 0644) == nil, "WriteFullFile x")
	verifAssert(inner.MkdirAll("y/z", 0755) == nil, "MkdirAll y/z")
	mfs, err := NewFS(root)
	verifAssert(err == nil, "mount.NewFS")
	verifAssert(mfs.AddMount("d/m", inner) == nil, "AddMount")
	op := verifChoice("op", 5)
	verifTag("op", []string{"RemoveAll(d)", "Remove(d)", "Rename(d,e)", "Chmod(d)", "RemoveAll(d/r)"}[op])
	switch op {
	case 0:
		_ = hackpadfs.RemoveAll(mfs, "d")
	case 1:
		_ = hackpadfs.Remove(mfs, "d")
	case 2:
		_ = hackpadfs.Rename(mfs, "d", "e")
	case 3:
		_ = hackpadfs.Chmod(mfs, "d", hackpadfs.FileMode(verifUint32("mode")))
	default:
		_ = hackpadfs.RemoveAll(mfs, "d/r")
	}
	verifReach("returned")
	got, err := hackpadfs.ReadFile(inner, "x")
	verifAssert(err == nil && len(got) == 1 && got[0] == verifBytes("x", 1)[0], "an operation above the mount point changed a file of the mounted file system")
	info, err := hackpadfs.Stat(inner, "y/z")
	verifAssert(err == nil && info.IsDir(), "an operation above the mount point removed a directory of the mounted file system")
	entries, err := hackpadfs.ReadDir(inner, ".")
	verifAssert(err == nil && len(entries) == 2, "an operation above the mount point changed the root of the mounted file system")
}

// VerifC06Remount: routing is decided by the mount table at the time of the call: a path that was used
// (and possibly remembered) before a file system was mounted above it is routed to the new mount afterwards.
func VerifC06Remount() {
	root, err := mem.NewFS()
	verifAssert(err == nil, "NewFS")
	verifAssert(root.MkdirAll("a/sub", 0755) == nil, "MkdirAll a/sub")
	verifAssert(hackpadfs.WriteFullFile(root, "a/x", []byte{1}, 0644) == nil, "WriteFullFile a/x")
	mfs, err := NewFS(root)
	verifAssert(err == nil, "mount.NewFS")
	paths := []string{"a/x", "a/sub", "a/new", "a"}
	p := paths[verifChoice("path", len(paths))]
	verifTag("path", p)
	// use the path (every kind of use) before the mount exists
	switch verifChoice("use", 4) {
	case 0:
		_, _ = hackpadfs.Stat(mfs, p)
	case 1:
		if f, err := mfs.Open(p); err == nil {
			_ = f.Close()
		}
	case 2:
		_, _ = hackpadfs.ReadDir(mfs, p)
	default:
		_, _ = mfs.Mount(p)
	}
	inner, err := mem.NewFS()
	verifAssert(err == nil, "NewFS")
	verifAssert(hackpadfs.WriteFullFile(inner, "x", []byte{2, 2}, 0644) == nil, "WriteFullFile inner x")
	verifAssert(mfs.AddMount("a", inner) == nil, "AddMount")
	verifReach("mounted")
	// every path at or below the mount point now shows the mounted file system
	got, err := hackpadfs.ReadFile(mfs, "a/x")
	verifAssert(err == nil && len(got) == 2, "a path used before the mount is still routed to the old file system")
	_, err = hackpadfs.Stat(mfs, "a/sub")
	verifAssert(err != nil, "a directory of the covered file system is still visible below the mount point")
	verifAssert(hackpadfs.WriteFullFile(mfs, "a/new", []byte{3}, 0644) == nil, "WriteFullFile through the new mount")
	_, err = hackpadfs.Stat(inner, "new")
	verifAssert(err == nil, "a write below the new mount point did not reach the mounted file system")
	_, err = hackpadfs.Stat(root, "a/new")
	verifAssert(err != nil, "a write below the new mount point reached the covered file system")
	fsAt, sub := mfs.Mount(p)
	if p == "a" {
		verifAssert(sub == ".", "Mount(a) does not address the root of the mounted file system")
	}
	_ = fsAt
}
