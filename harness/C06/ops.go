package mount

import (
	"strings"

	"github.com/hack-pad/hackpadfs"
	"github.com/hack-pad/hackpadfs/mem"
)

// VerifC06Ops: every helper through the mount FS takes effect in exactly the file system mounted at
// the longest matching mount point (directory "a" of the universe is a mount point), addressed by the
// remainder, and in no other file system; its result is the single-tree model's.
func VerifC06Ops() {
	root, err := mem.NewFS()
	verifAssert(err == nil, "NewFS")
	inner, err := mem.NewFS()
	verifAssert(err == nil, "NewFS")
	verifAssert(root.Mkdir("a", 0777) == nil, "Mkdir mount point")
	mfs, err := NewFS(root)
	verifAssert(err == nil, "mount.NewFS")
	verifAssert(mfs.AddMount("a", inner) == nil, "AddMount")
	t := rNewTree()
	e, _ := t.mkdir("a", 0666)
	verifAssert(e == 0, "model mkdir a")
	c05SymTree(mfs, t)
	op := verifChoice("op", len(rOpNames))
	r := rStep(mfs, t, op, false)
	verifReach("stepped")
	involvesMountPoint := rLastArg == "a" || rLastArg2 == "a"
	if involvesMountPoint {
		verifTag("involves", "mount-point")
	}
	crossMount := op == 6 && strings.HasPrefix(rLastArg, "a/") != strings.HasPrefix(rLastArg2, "a/") && rLastArg2 != "."
	if crossMount {
		verifTag("rename", "cross-mount")
	}
	if r.err != nil && crossMount && t.kind(rLastArg2) == rDir && r.errno == 0 {
		// moving a directory across mounts is not supported (ErrNotImplemented): the model moved it; stop here
		verifReach("cross-mount-dir")
		return
	}
	if r.errno == 0 {
		verifAssert(r.err == nil, "the operation through the mount FS failed where the single tree succeeds")
	} else {
		verifAssert(r.err != nil, "the operation through the mount FS succeeded where the single tree fails")
	}
	rCompare(mfs, t, "mount FS after the step")
	// only there: the root FS holds nothing below the mount point, the mounted FS exactly the subtree
	entries, lerr := hackpadfs.ReadDir(root, "a")
	verifAssert(lerr == nil && len(entries) == 0, "the operation took effect in the root FS below the mount point")
	for _, p := range rClosure() {
		if !strings.HasPrefix(p, "a/") {
			if p != "." && p != "a" {
				_, serr := hackpadfs.Stat(inner, p)
				if t.walk("a/"+p) != 0 {
					verifAssert(serr != nil, "the operation took effect in the mounted FS although the path is outside the mount point")
				}
			}
			continue
		}
		info, serr := hackpadfs.Stat(inner, p[2:])
		if t.walk(p) != 0 {
			verifAssert(serr != nil, "the mounted FS holds an entry the model does not have")
			continue
		}
		verifAssert(serr == nil, "the mounted FS lacks an entry addressed by the remainder of the path")
		verifAssert(info.IsDir() == (t.kind(p) == rDir), "kind in the mounted FS differs")
	}
}
