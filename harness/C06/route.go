package mount

import (
	"errors"
	iofs "io/fs"
	"strings"
	"sync"

	"github.com/hack-pad/hackpadfs"
	"github.com/hack-pad/hackpadfs/mem"
)

var c06Points = []string{"a", "ab", "a/b", "a/b/c", "b", "a/bc"}

// c06Spec: the longest mount point that equals the path or is a whole-element prefix of it.
func c06Spec(points []string, p string) (best int, sub string) {
	best = -1
	for i, mp := range points {
		if p == mp || strings.HasPrefix(p, mp+"/") {
			if best < 0 || len(mp) > len(points[best]) {
				best = i
			}
		}
	}
	if best < 0 {
		return -1, p
	}
	sub = strings.TrimPrefix(strings.TrimPrefix(p, points[best]), "/")
	if sub == "" {
		sub = "."
	}
	return best, sub
}

// VerifC06Route: Mount(path) for every set of <= MAXMOUNTS mount points, every iteration order of the
// mount table, and a path of symbolic bytes.
func VerifC06Route() {
	root, err := mem.NewFS()
	verifAssert(err == nil, "NewFS")
	fs, err := NewFS(root)
	verifAssert(err == nil, "mount.NewFS")
	var points []string
	var targets []hackpadfs.FS
	for i, mp := range c06Points {
		if len(points) >= verifParam("MAXMOUNTS") {
			break
		}
		if verifChoice(verifName("mounted", i), 2) == 1 {
			m, err := mem.NewFS()
			verifAssert(err == nil, "NewFS")
			points = append(points, mp)
			targets = append(targets, m)
			fs.mounts.Store(mp, hackpadfs.FS(m)) // routing only: AddMount's validation is decided separately
		}
	}
	var p string
	if verifChoice("path-source", 2) == 0 {
		cands := []string{".", "a", "ab", "abc", "a/b", "a/bc", "a/b/c", "a/b/c/d", "a/b/cd", "b", "b/a", "c", "a/c", "ab/c"}
		p = cands[verifChoice("path", len(cands))]
	} else {
		n := verifChoice("path.len", verifParam("PATHLEN")+1)
		p = verifString("p", n)
		verifAssume(iofs.ValidPath(p))
	}
	want, wantSub := c06Spec(points, p)
	got, gotSub := fs.Mount(p)
	verifReach("routed")
	verifObserveStr("sub", gotSub)
	if want < 0 {
		verifAssert(got == hackpadfs.FS(root), "a path below no mount point must be routed to the root FS")
		verifAssert(gotSub == p, "root routing must keep the path unchanged")
		return
	}
	verifAssert(got == targets[want], "the path was not routed to the longest matching mount point")
	verifAssert(gotSub == wantSub, "the sub-path is not the remainder of the path below the mount point")
}

// VerifC06AddMount: a mount can only be added at an existing directory that is not already a mount point.
func VerifC06AddMount() {
	root, err := mem.NewFS()
	verifAssert(err == nil, "NewFS")
	verifAssert(root.Mkdir("d", 0755) == nil, "Mkdir d")
	verifAssert(hackpadfs.WriteFullFile(root, "f", verifBytes("data", 1), 0644) == nil, "WriteFullFile f")
	fs, err := NewFS(root)
	verifAssert(err == nil, "mount.NewFS")
	inner, err := mem.NewFS()
	verifAssert(err == nil, "NewFS")
	verifAssert(inner.Mkdir("e", 0755) == nil, "Mkdir e")
	verifAssert(fs.AddMount("d", inner) == nil, "AddMount at an existing directory failed")
	other, _ := mem.NewFS()
	cases := []string{"d", "f", "missing", ".", "d/e", "d/missing", "d/e/", "/d", ""}
	c := verifChoice("case", len(cases))
	verifTag("case", cases[c])
	err = fs.AddMount(cases[c], other)
	verifReach("addmount-returned")
	switch cases[c] {
	case "d":
		verifAssert(err != nil && errors.Is(err, hackpadfs.ErrExist), "mounting at an existing mount point must fail with ErrExist")
	case "f":
		verifAssert(err != nil && errors.Is(err, hackpadfs.ErrNotDir), "mounting at a regular file must fail with ErrNotDir")
	case "missing", "d/missing":
		verifAssert(err != nil && errors.Is(err, hackpadfs.ErrNotExist), "mounting at a missing path must fail with ErrNotExist")
	case ".", "d/e/", "/d", "":
		verifAssert(err != nil && errors.Is(err, hackpadfs.ErrInvalid), "mounting at an invalid point must fail with ErrInvalid")
	case "d/e":
		verifAssert(err == nil, "mounting at an existing directory inside another mount failed")
	}
	if err != nil {
		pe, ok := err.(*hackpadfs.PathError)
		verifAssert(ok && pe.Path == cases[c], "AddMount failure must be a *PathError naming the mount point")
		n := len(fs.MountPoints())
		verifAssert(n == 1, "a failed AddMount changed the mount table")
		// and the mount table stays usable: a later AddMount returns (a refusal must not keep the table locked)
		later, _ := mem.NewFS()
		verifAssert(fs.AddMount("d/e", later) == nil, "AddMount after a refused AddMount failed")
		verifReach("addmount-after-refusal")
	}
}

// VerifC06AddMountRace (tier B): of concurrent attempts to mount the same point exactly one succeeds.
func VerifC06AddMountRace() {
	root, err := mem.NewFS()
	verifAssert(err == nil, "NewFS")
	verifAssert(root.Mkdir("d", 0755) == nil, "Mkdir d")
	refused := verifChoice("point", 2) == 1
	if refused {
		// the point is a regular file: every attempt is refused, and a refused mount is never visible - neither
		// to a concurrent attempt (which must not see "already mounted") nor in the table
		verifTag("point", "regular-file")
		verifAssert(hackpadfs.WriteFullFile(root, "d/f", []byte{1}, 0644) == nil, "WriteFullFile d/f")
	}
	fs, err := NewFS(root)
	verifAssert(err == nil, "mount.NewFS")
	n := verifParam("GOROUTINES")
	errs := make([]error, n)
	if refused {
		var wg sync.WaitGroup
		wg.Add(n)
		for i := 0; i < n; i++ {
			i := i
			m, _ := mem.NewFS()
			go func() {
				errs[i] = fs.AddMount("d/f", m)
				wg.Done()
			}()
		}
		wg.Wait()
		verifReach("race-done")
		for _, e := range errs {
			verifAssert(e != nil && errors.Is(e, hackpadfs.ErrNotDir), "AddMount at a regular file must fail with ErrNotDir, whatever runs concurrently")
		}
		verifAssert(len(fs.MountPoints()) == 0, "a refused mount is registered")
		return
	}
	var wg sync.WaitGroup
	wg.Add(n)
	for i := 0; i < n; i++ {
		i := i
		m, _ := mem.NewFS()
		go func() {
			errs[i] = fs.AddMount("d", m)
			wg.Done()
		}()
	}
	wg.Wait()
	ok := 0
	for _, e := range errs {
		if e == nil {
			ok++
		} else {
			verifAssert(errors.Is(e, hackpadfs.ErrExist), "a losing concurrent AddMount must fail with ErrExist")
		}
	}
	verifReach("race-done")
	verifAssert(ok == 1, "exactly one of the concurrent AddMount calls must succeed")
	verifAssert(len(fs.MountPoints()) == 1, "exactly one mount must be registered")
}

// VerifC06CrossRename: a regular file renamed across two mounts ends up only at the destination with
// the same bytes and mode, or the call fails leaving both sides unchanged.
func VerifC06CrossRename() {
	root, err := mem.NewFS()
	verifAssert(err == nil, "NewFS")
	inner, err := mem.NewFS()
	verifAssert(err == nil, "NewFS")
	verifAssert(root.Mkdir("m", 0755) == nil, "Mkdir m")
	fs, err := NewFS(root)
	verifAssert(err == nil, "mount.NewFS")
	verifAssert(fs.AddMount("m", inner) == nil, "AddMount")
	dir := verifChoice("direction", 2) // 0: root -> mount, 1: mount -> root
	// the destination's base name may equal the source's (the remainders inside the two mounts are then equal)
	g := []string{"g", "f"}[verifChoice("dest-name", 2)]
	src, dst := "f", "m/"+g
	if dir == 1 {
		src, dst = "m/f", g
		verifTag("direction", "mount-to-root")
	} else {
		verifTag("direction", "root-to-mount")
	}
	data := verifBytes("data", verifChoice("len", 3))
	verifAssert(hackpadfs.WriteFullFile(fs, src, data, 0600) == nil, "create source")
	mode := hackpadfs.FileMode(verifUint32("mode"))
	verifAssert(hackpadfs.Chmod(fs, src, mode) == nil, "chmod source")
	srcInfo, err := hackpadfs.Stat(fs, src)
	verifAssert(err == nil, "stat source")
	existing := verifChoice("dest", 3) // 0 absent, 1 existing file, 2 missing parent
	switch existing {
	case 1:
		verifTag("dest", "existing-file")
		verifAssert(hackpadfs.WriteFullFile(fs, dst, verifBytes("old", 2), 0640) == nil, "create destination")
	case 2:
		verifTag("dest", "missing-parent")
		if dir == 1 {
			dst = "nodir/g"
		} else {
			dst = "m/nodir/g"
		}
	default:
		verifTag("dest", "absent")
	}
	err = fs.Rename(src, dst)
	verifReach("renamed")
	if err != nil {
		verifTag("result", "failed")
		verifAssert(existing == 2, "a cross-mount rename of a regular file to a valid destination failed")
		got, rerr := hackpadfs.ReadFile(fs, src)
		verifAssert(rerr == nil && len(got) == len(data), "failed rename: the source changed")
		_, serr := hackpadfs.Stat(fs, dst)
		verifAssert(serr != nil, "failed rename: something was created at the destination")
		return
	}
	verifTag("result", "ok")
	verifAssert(existing != 2, "a rename into a missing directory succeeded")
	_, serr := hackpadfs.Stat(fs, src)
	verifAssert(serr != nil && errors.Is(serr, hackpadfs.ErrNotExist), "after the rename the source still exists")
	got, rerr := hackpadfs.ReadFile(fs, dst)
	verifAssert(rerr == nil && len(got) == len(data), "destination length differs from the source")
	for i := range data {
		verifAssert(got[i] == data[i], "destination bytes differ from the source")
	}
	dstInfo, derr := hackpadfs.Stat(fs, dst)
	verifAssert(derr == nil, "stat destination")
	verifAssert(dstInfo.Mode().Perm() == srcInfo.Mode().Perm(), "destination permission bits differ from the source's")
	verifAssert(dstInfo.Mode() == srcInfo.Mode(), "destination mode (incl. set-uid/set-gid/sticky) differs from the source's")
}
