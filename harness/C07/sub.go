package mount

import (
	iofs "io/fs"
	"path"

	"github.com/hack-pad/hackpadfs"
	"github.com/hack-pad/hackpadfs/mem"
)

var c07Kinds = []string{"sub-of-mem", "sub-at-mount-point", "nested-sub", "sub-above-mount-point", "sub-dot", "sub-of-sub-dot"}

// c07NewView returns the view under test, the parent FS, and the view's directory in the parent.
// Outside the view's directory the parent holds: file "o" and directory "o2" with file "o2/x".
func c07NewView() (view hackpadfs.FS, parent hackpadfs.FS, dir string) {
	kind := verifParam("FSKIND")
	verifTag("fs", c07Kinds[kind])
	newMem := func() *mem.FS {
		m, err := mem.NewFS()
		verifAssert(err == nil, "NewFS failed")
		return m
	}
	sub := func(fs hackpadfs.FS, d string) hackpadfs.FS {
		v, err := hackpadfs.Sub(fs, d)
		verifAssert(err == nil, "Sub failed")
		return v
	}
	base := newMem()
	switch kind {
	case 0:
		verifAssert(base.Mkdir("s", 0777) == nil, "Mkdir s")
		parent, dir = base, "s"
		view = sub(base, "s")
	case 1:
		verifAssert(base.Mkdir("s", 0777) == nil, "Mkdir s")
		mfs, err := NewFS(base)
		verifAssert(err == nil, "mount.NewFS")
		verifAssert(mfs.AddMount("s", newMem()) == nil, "AddMount")
		parent, dir = mfs, "s"
		view = sub(mfs, "s")
	case 2:
		verifAssert(base.Mkdir("s", 0777) == nil, "Mkdir s")
		verifAssert(base.Mkdir("s/t", 0777) == nil, "Mkdir s/t")
		parent, dir = base, "s/t"
		view = sub(sub(base, "s"), "t")
	case 3:
		// the universe directory "a" inside the view is a mount point of the parent
		verifAssert(base.Mkdir("s", 0777) == nil, "Mkdir s")
		verifAssert(base.Mkdir("s/a", 0777) == nil, "Mkdir s/a")
		mfs, err := NewFS(base)
		verifAssert(err == nil, "mount.NewFS")
		verifAssert(mfs.AddMount("s/a", newMem()) == nil, "AddMount")
		parent, dir = mfs, "s"
		view = sub(mfs, "s")
	case 4:
		parent, dir = base, "."
		view = sub(base, ".")
	default:
		verifAssert(base.Mkdir("s", 0777) == nil, "Mkdir s")
		parent, dir = base, "s"
		view = sub(sub(base, "."), "s")
	}
	if dir != "." {
		verifAssert(hackpadfs.WriteFullFile(parent, "o", verifBytes("outside.o", 1), 0644) == nil, "outside file")
		verifAssert(hackpadfs.Mkdir(parent, "o2", 0755) == nil, "outside dir")
		verifAssert(hackpadfs.WriteFullFile(parent, "o2/x", verifBytes("outside.x", 1), 0600) == nil, "outside file 2")
	}
	return view, parent, dir
}

// VerifC07Twin: an operation through the view equals the operation on the parent at dir/name
// (the model is the common reference), and nothing outside dir changes.
func VerifC07Twin() {
	view, parent, dir := c07NewView()
	inner := rNewTree() // the view's namespace
	if verifParam("FSKIND") == 3 {
		e, _ := inner.mkdir("a", 0666)
		verifAssert(e == 0, "model mkdir a")
	}
	c05SymTree(view, inner)
	// the same tree must be visible through the parent below dir
	rCompareAt(parent, inner, dir, "pre-state seen through the parent")
	op := verifChoice("op", len(rOpNames))
	r := rStep(view, inner, op, false)
	verifReach("stepped")
	if r.errno == 0 {
		verifAssert(r.err == nil, "the operation through the view failed where the parent at dir/name succeeds")
	} else {
		verifAssert(r.err != nil, "the operation through the view succeeded where the parent at dir/name fails")
		// "same result": the failure is reported in the view's namespace, like the parent reports dir/name in its own
		if op == 6 {
			if le, ok := r.err.(*hackpadfs.LinkError); ok {
				verifAssert(le.Old == rLastArg && le.New == rLastArg2, "the view's LinkError does not name the view's own paths")
			}
		} else if pe, ok := r.err.(*hackpadfs.PathError); ok {
			verifAssert(pe.Path == r.epath, "the view's PathError does not name the path in the view's namespace")
		}
	}
	rCompare(view, inner, "view after the step")
	rCompareAt(parent, inner, dir, "parent below dir after the step")
	if dir != "." {
		// confinement: the outside is untouched
		got, err := hackpadfs.ReadFile(parent, "o")
		verifAssert(err == nil && len(got) == 1 && got[0] == verifBytes("outside.o", 1)[0], "a file outside the view's directory changed")
		got, err = hackpadfs.ReadFile(parent, "o2/x")
		verifAssert(err == nil && len(got) == 1 && got[0] == verifBytes("outside.x", 1)[0], "a file outside the view's directory changed")
		entries, err := hackpadfs.ReadDir(parent, ".")
		verifAssert(err == nil, "ReadDir(parent, .)")
		want := 3
		verifAssert(len(entries) == want, "the parent's root gained or lost an entry")
	}
}

// rCompareAt: the parent shows the model's tree below dir.
func rCompareAt(fs hackpadfs.FS, t *rTree, dir string, when string) {
	for _, p := range rClosure() {
		full := path.Join(dir, p)
		info, err := hackpadfs.Stat(fs, full)
		want := t.get(p)
		if t.walk(p) != 0 {
			want = &rNode{}
		}
		if want.kind == rAbsent {
			verifAssert(err != nil, when+": a path exists that must not exist")
			continue
		}
		verifAssert(err == nil, when+": a path that must exist is missing")
		verifAssert(info.IsDir() == (want.kind == rDir), when+": kind differs")
		if want.kind == rFile {
			got, err := hackpadfs.ReadFile(fs, full)
			verifAssert(err == nil && len(got) == len(want.data), when+": file length differs")
			for i := range want.data {
				verifAssert(got[i] == want.data[i], when+": file bytes differ")
			}
		}
	}
}

// VerifC07Confine (pure strings): joining a valid dir and a valid name stays inside dir.
func VerifC07Confine() {
	dn := verifChoice("dir.len", verifParam("LEN")+1)
	nn := verifChoice("name.len", verifParam("LEN")+1)
	dir, name := verifString("dir", dn), verifString("name", nn)
	verifAssume(iofs.ValidPath(dir))
	verifAssume(iofs.ValidPath(name))
	view, err := newSubFSForVerif(dir)
	verifAssert(err == nil, "Sub with a valid dir failed")
	_, joined := view.Mount(name)
	verifReach("joined")
	verifAssert(iofs.ValidPath(joined), "the joined path is not a valid path")
	if dir == "." {
		verifAssert(joined == name, "Sub(.): the joined path differs from the name")
		return
	}
	ok := joined == dir || (len(joined) > len(dir) && joined[:len(dir)] == dir && joined[len(dir)] == '/')
	verifAssert(ok, "the joined path leaves the view's directory")
}

// newSubFSForVerif builds the generic Sub wrapper over an FS exposing only Open.
type c07OpenOnly struct{ fs hackpadfs.FS }

func (o c07OpenOnly) Open(name string) (hackpadfs.File, error) { return o.fs.Open(name) }

func newSubFSForVerif(dir string) (hackpadfs.MountFS, error) {
	m, err := mem.NewFS()
	if err != nil {
		return nil, err
	}
	v, err := hackpadfs.Sub(c07OpenOnly{m}, dir)
	if err != nil {
		return nil, err
	}
	return v.(hackpadfs.MountFS), nil
}

var c07EscapeNames = []string{"../o", "../o2/x", "..", "a/../../o", "/o", "../s/../o", "./../o"}
var c07EscapeOps = []string{"Open", "Stat", "ReadFile", "WriteFullFile", "Remove", "RemoveAll", "Mkdir", "MkdirAll", "Chmod", "Rename-old", "Rename-new", "OpenFile-create", "ReadDir"}

// VerifC07Escape: names that would resolve outside the view's directory are refused and change nothing.
func VerifC07Escape() {
	view, parent, dir := c07NewView()
	verifAssume(dir != ".")
	verifAssert(hackpadfs.WriteFullFile(view, "b", verifBytes("inside.b", 1), 0644) == nil, "inside file")
	name := c07EscapeNames[verifChoice("name", len(c07EscapeNames))]
	op := verifChoice("op", len(c07EscapeOps))
	verifTag("op", c07EscapeOps[op])
	var err error
	switch op {
	case 0:
		var f hackpadfs.File
		f, err = view.Open(name)
		if err == nil {
			_ = f.Close()
		}
	case 1:
		_, err = hackpadfs.Stat(view, name)
	case 2:
		_, err = hackpadfs.ReadFile(view, name)
	case 3:
		err = hackpadfs.WriteFullFile(view, name, []byte{9}, 0644)
	case 4:
		err = hackpadfs.Remove(view, name)
	case 5:
		err = hackpadfs.RemoveAll(view, name)
	case 6:
		err = hackpadfs.Mkdir(view, name, 0755)
	case 7:
		err = hackpadfs.MkdirAll(view, name, 0755)
	case 8:
		err = hackpadfs.Chmod(view, name, 0)
	case 9:
		err = hackpadfs.Rename(view, name, "c")
	case 10:
		err = hackpadfs.Rename(view, "b", name)
	case 11:
		var f hackpadfs.File
		f, err = hackpadfs.OpenFile(view, name, hackpadfs.FlagReadWrite|hackpadfs.FlagCreate, 0644)
		if err == nil {
			_ = f.Close()
		}
	case 12:
		_, err = hackpadfs.ReadDir(view, name)
	}
	verifReach("escape-attempted")
	verifAssert(err != nil, "a name that leaves the view's directory was accepted")
	got, rerr := hackpadfs.ReadFile(parent, "o")
	verifAssert(rerr == nil && len(got) == 1 && got[0] == verifBytes("outside.o", 1)[0], "a file outside the view's directory was changed or removed")
	got, rerr = hackpadfs.ReadFile(parent, "o2/x")
	verifAssert(rerr == nil && len(got) == 1 && got[0] == verifBytes("outside.x", 1)[0], "a file outside the view's directory was changed or removed")
	info, serr := hackpadfs.Stat(parent, "o")
	verifAssert(serr == nil && info.Mode().Perm() == 0644, "the mode of a file outside the view's directory changed")
	entries, lerr := hackpadfs.ReadDir(parent, ".")
	verifAssert(lerr == nil && len(entries) == 3, "the parent's root gained or lost an entry")
}

// c07OwnSub: a mounted file system with a Sub method of its own (like os.FS): hackpadfs.Sub of a path inside
// the mount must hand the remainder to it instead of wrapping it in the generic view (which offers fewer
// operations).
type c07OwnSub struct {
	*mem.FS
	calls *int
	last  *string
}

func (o c07OwnSub) Sub(dir string) (hackpadfs.FS, error) {
	*o.calls++
	*o.last = dir
	return hackpadfs.Sub(o.FS, dir)
}

// VerifC07SubDelegation: Sub(mountFS, point/dir) = the mounted file system's own Sub(dir).
func VerifC07SubDelegation() {
	root, err := mem.NewFS()
	verifAssert(err == nil && root.Mkdir("m", 0755) == nil, "root")
	inner, err := mem.NewFS()
	verifAssert(err == nil && inner.MkdirAll("d/e", 0755) == nil, "inner")
	verifAssert(hackpadfs.WriteFullFile(inner, "d/f", []byte{1}, 0644) == nil, "WriteFullFile")
	calls, last := 0, ""
	mfs, err := NewFS(root)
	verifAssert(err == nil && mfs.AddMount("m", c07OwnSub{inner, &calls, &last}) == nil, "AddMount")
	dir := []string{"m/d", "m", "m/d/e"}[verifChoice("dir", 3)]
	view, err := hackpadfs.Sub(mfs, dir)
	verifReach("sub-returned")
	verifAssert(err == nil && view != nil, "Sub of a directory inside a mount failed")
	verifAssert(calls == 1, "Sub of a path inside a mount did not use the mounted file system's own Sub")
	want := "."
	if len(dir) > 2 {
		want = dir[2:]
	}
	verifAssert(last == want, "the mounted file system's Sub received another directory than the remainder of the path")
}
