package mount

import (
	"errors"
	"io"
	"strings"
	"time"

	"github.com/hack-pad/hackpadfs"
	"github.com/hack-pad/hackpadfs/mem"
)

// capability bits (see c08Mask)
const (
	c08OpenFileBit = 1 << iota
	c08MkdirBit
	c08MkdirAllBit
	c08RemoveBit
	c08RenameBit
	c08StatBit
	c08ChmodBit
	c08ChtimesBit
	c08All = 255
)

// the helpers under test, with the interfaces whose presence their dispatch (and their fall-backs) inspect
var c08Helpers = []struct {
	name string
	op   int // rOpNames index, or -1 for the extra helpers
	bits []int
}{
	{"Mkdir", 0, []int{c08MkdirBit}},
	{"MkdirAll", 1, []int{c08MkdirAllBit, c08MkdirBit, c08StatBit}},
	{"OpenFile", 2, []int{c08OpenFileBit}},
	{"WriteFullFile", 3, []int{c08OpenFileBit}},
	{"Remove", 4, []int{c08RemoveBit}},
	{"RemoveAll", 5, []int{c08RemoveBit, c08StatBit}},
	{"Rename", 6, []int{c08RenameBit}},
	{"Chmod", 7, []int{c08ChmodBit}},
	{"Chtimes", 8, []int{c08ChtimesBit}},
	{"Stat", 9, []int{c08StatBit}},
	{"ReadDir", 10, []int{c08StatBit}},
	{"ReadFile", 11, []int{c08StatBit}},
}

func (t *rTree) clone() *rTree {
	c := &rTree{n: map[string]*rNode{}}
	for k, n := range t.n {
		cp := *n
		cp.data = append([]byte{}, n.data...)
		c.n[k] = &cp
	}
	return c
}

// c08Setup: pre-state through the full mem.FS, then the masked view of it for the helper under test.
func c08Setup() (*c08Core, hackpadfs.FS, *rTree, int) {
	m, err := mem.NewFS()
	verifAssert(err == nil, "NewFS failed")
	t := rNewTree()
	rSymTree(m, t)
	h := verifChoice("helper", len(c08Helpers))
	verifTag("helper", c08Helpers[h].name)
	mask := c08All
	desc := ""
	for _, b := range c08Helpers[h].bits {
		if verifChoice(verifName("hide", b), 2) == 1 {
			mask &^= b
			desc += "-" + c08BitName(b)
		}
	}
	if desc == "" {
		desc = "all"
	}
	verifTag("hidden", desc)
	core := &c08Core{fs: m, faultAt: -1, closeFaultAt: -1}
	return core, c08Mask(core, mask), t, h
}

func c08BitName(b int) string {
	names := []string{"OpenFile", "Mkdir", "MkdirAll", "Remove", "Rename", "Stat", "Chmod", "Chtimes"}
	for i, n := range names {
		if b == 1<<i {
			return n
		}
	}
	return "?"
}

// VerifC08Masks: on every capability subset the helper gives the full FS's result and final state, or
// fails with ErrNotImplemented and changes nothing.
func VerifC08Masks() {
	core, fs, t, h := c08Setup()
	before := t.clone()
	r := rStep(fs, t, c08Helpers[h].op, false)
	verifReach("helper-returned")
	if r.err != nil && errors.Is(r.err, hackpadfs.ErrNotImplemented) {
		verifReach("not-implemented")
		rCompare(core.fs, before, "after a helper that reported ErrNotImplemented")
		return
	}
	if r.errno == 0 {
		verifAssert(r.err == nil, "the helper failed on a capability subset where the full FS succeeds")
	} else {
		verifAssert(r.err != nil, "the helper succeeded on a capability subset where the full FS fails")
	}
	rCompare(core.fs, t, "final state on a capability subset")
}

// VerifC08Faults: if a primitive the helper relies on fails, the helper returns an error - it never
// reports success for work that was not done.
func VerifC08Faults() {
	core, fs, t, h := c08Setup()
	if verifChoice("fault-kind", 2) == 1 {
		// the Close of the first handle the helper wrote through fails and loses the data (a flush on Close)
		verifTag("fault-kind", "close-loses-data")
		core.closeFaultAt = 0
	} else {
		fault := verifInt("fault")
		verifAssume(fault >= 0)
		verifAssume(fault <= verifParam("MAXFAULT"))
		core.faultAt = fault
	}
	r := rStep(fs, t, c08Helpers[h].op, false)
	core.faultAt, core.closeFaultAt = -1, -1
	verifReach("helper-returned")
	verifAssert(core.opened == core.closed, "the helper left a handle open (also on its failure paths every handle it opened is closed)")
	if !core.fired {
		return
	}
	verifReach("fault-fired")
	verifTag("fault-in", core.firedIn)
	if r.err == nil && r.errno == 0 {
		// success reported although a primitive failed: then the work must have been done completely
		rCompare(core.fs, t, "helper reported success although a primitive failed: final state")
	}
	if r.err == nil && r.errno != 0 {
		verifAssert(false, "the helper succeeded where the full FS fails")
	}
}

// file helpers: method present => delegated; absent => ErrNotImplemented PathError
type c08BareFile struct{ f hackpadfs.File }

func (b c08BareFile) Stat() (hackpadfs.FileInfo, error) { return b.f.Stat() }
func (b c08BareFile) Read(p []byte) (int, error)        { return b.f.Read(p) }
func (b c08BareFile) Close() error                      { return b.f.Close() }

type c08SeekFile struct{ c08BareFile }

func (s c08SeekFile) Seek(offset int64, whence int) (int64, error) {
	return hackpadfs.SeekFile(s.f, offset, whence)
}

var c08FileHelpers = []string{"ChmodFile", "ChownFile", "ChtimesFile", "ReadAtFile", "WriteFile", "WriteAtFile", "ReadDirFile", "SeekFile", "SyncFile", "TruncateFile"}

func VerifC08FileHelpers() {
	m, err := mem.NewFS()
	verifAssert(err == nil, "NewFS failed")
	verifAssert(hackpadfs.WriteFullFile(m, "f", verifBytes("data", 2), 0644) == nil, "WriteFullFile")
	real, err := m.OpenFile("f", hackpadfs.FlagReadWrite, 0)
	verifAssert(err == nil, "OpenFile")
	var f hackpadfs.File = real
	h0 := verifChoice("helper", len(c08FileHelpers))
	wrap := verifChoice("bare", 3)
	bare := wrap >= 1
	if wrap == 2 {
		// a file that offers Seek (only): a helper must not emulate a missing method through another one
		f = c08SeekFile{c08BareFile{real}}
		verifTag("file", "bare+Seek")
		verifAssume(h0 != 7) // SeekFile itself is offered
	} else if bare {
		f = c08BareFile{real}
		verifTag("file", "bare")
	} else {
		verifTag("file", "full")
	}
	h := h0
	verifTag("helper", c08FileHelpers[h])
	switch h {
	case 0:
		err = hackpadfs.ChmodFile(f, hackpadfs.FileMode(verifUint32("mode")))
	case 1:
		err = hackpadfs.ChownFile(f, 1, 1)
	case 2:
		err = hackpadfs.ChtimesFile(f, time.Unix(1, 0), time.Unix(2, 0))
	case 3:
		_, err = hackpadfs.ReadAtFile(f, make([]byte, 1), 0)
	case 4:
		_, err = hackpadfs.WriteFile(f, verifBytes("p", 1))
	case 5:
		_, err = hackpadfs.WriteAtFile(f, verifBytes("p", 1), 0)
	case 6:
		_, err = hackpadfs.ReadDirFile(f, 1)
	case 7:
		_, err = hackpadfs.SeekFile(f, 1, 0)
	case 8:
		err = hackpadfs.SyncFile(f)
	case 9:
		err = hackpadfs.TruncateFile(f, verifInt64("size")&3)
	}
	verifReach("file-helper-returned")
	if bare {
		verifAssert(err != nil && errors.Is(err, hackpadfs.ErrNotImplemented), "a file helper on a file without the method must fail with ErrNotImplemented")
		pe, ok := err.(*hackpadfs.PathError)
		verifAssert(ok && pe.Path == "f", "the ErrNotImplemented error must be a *PathError naming the file")
		got, rerr := hackpadfs.ReadFile(m, "f")
		verifAssert(rerr == nil && len(got) == 2 && got[0] == verifBytes("data", 2)[0] && got[1] == verifBytes("data", 2)[1], "a refused file helper changed the file")
	}
}

// an FS that exposes Lstat (mem does not): Lstat behaves by 'mode': 0 delegates to Stat,
// 1 fails with an injected error, 2 reports ErrNotImplemented (then the Stat fall-back is legitimate)
type c08LstatFS struct {
	*mem.FS
	mode int
}

func (l c08LstatFS) Lstat(name string) (hackpadfs.FileInfo, error) {
	switch l.mode {
	case 1:
		return nil, &hackpadfs.PathError{Op: "lstat", Path: name, Err: c08ErrInjected}
	case 2:
		return nil, &hackpadfs.PathError{Op: "lstat", Path: name, Err: hackpadfs.ErrNotImplemented}
	}
	return l.FS.Stat(name)
}

// VerifC08Lstat: Lstat / LstatOrStat never turn a failing Lstat into a success.
func VerifC08Lstat() {
	m, err := mem.NewFS()
	verifAssert(err == nil, "NewFS failed")
	verifAssert(hackpadfs.WriteFullFile(m, "f", verifBytes("data", 1), 0644) == nil, "WriteFullFile")
	mode := verifChoice("lstat-mode", 3)
	verifTag("lstat", []string{"works", "fails", "not-implemented"}[mode])
	var fs hackpadfs.FS = c08LstatFS{m, mode}
	name := []string{"f", "missing"}[verifChoice("name", 2)]
	switch verifChoice("through", 3) {
	case 1:
		// the same through a mount: the helper's MountFS branch must ask the mounted file system's Lstat
		verifTag("through", "mount")
		root, rerr := mem.NewFS()
		verifAssert(rerr == nil && root.Mkdir("mnt", 0755) == nil, "root")
		mfs, merr := NewFS(root)
		verifAssert(merr == nil && mfs.AddMount("mnt", fs) == nil, "AddMount")
		fs, name = mfs, "mnt/"+name
	case 2:
		// a mounted file system that has no Lstat at all: Lstat reports ErrNotImplemented, also through the mount
		verifTag("through", "mount-of-an-FS-without-Lstat")
		root, rerr := mem.NewFS()
		verifAssert(rerr == nil && root.Mkdir("mnt", 0755) == nil, "root")
		mfs, merr := NewFS(root)
		verifAssert(merr == nil && mfs.AddMount("mnt", m) == nil, "AddMount")
		fs, name, mode = mfs, "mnt/"+name, 2
	}
	var info hackpadfs.FileInfo
	if verifChoice("helper", 2) == 0 {
		verifTag("helper", "Lstat")
		info, err = hackpadfs.Lstat(fs, name)
		if mode == 2 {
			verifAssert(err != nil && errors.Is(err, hackpadfs.ErrNotImplemented), "Lstat must pass ErrNotImplemented on")
			return
		}
	} else {
		verifTag("helper", "LstatOrStat")
		info, err = hackpadfs.LstatOrStat(fs, name)
	}
	verifReach("lstat-returned")
	switch {
	case mode == 1:
		verifAssert(err != nil, "the helper reported success although Lstat failed")
		verifAssert(errors.Is(err, c08ErrInjected), "the helper must return Lstat's error")
	case strings.HasSuffix(name, "missing"):
		verifAssert(err != nil && errors.Is(err, hackpadfs.ErrNotExist), "missing file must be reported")
	default:
		verifAssert(err == nil && info != nil && info.Size() == 1, "Lstat of an existing file failed")
	}
}

// VerifC08Create: hackpadfs.Create on an FS without a Create method (every FS of this module except os.FS)
// behaves like os.Create: the file exists afterwards with the requested bytes, an existing file is
// truncated, and the returned handle is open for reading and writing (what was written can be read back
// through the same handle). On an FS that offers neither Create nor OpenFile it fails with ErrNotImplemented.
func VerifC08Create() {
	m, err := mem.NewFS()
	verifAssert(err == nil, "NewFS failed")
	existing := verifChoice("existing", 2) == 1
	if existing {
		verifTag("target", "existing-file")
		verifAssert(hackpadfs.WriteFullFile(m, "f", verifBytes("old", 3), 0600) == nil, "WriteFullFile")
	} else {
		verifTag("target", "absent")
	}
	core := &c08Core{fs: m, faultAt: -1, closeFaultAt: -1}
	mask := c08All
	if verifChoice("hide-openfile", 2) == 1 {
		mask &^= c08OpenFileBit
		verifTag("hidden", "-OpenFile")
	}
	fs := c08Mask(core, mask)
	f, err := hackpadfs.Create(fs, "f")
	verifReach("create-returned")
	if mask&c08OpenFileBit == 0 {
		verifAssert(err != nil && errors.Is(err, hackpadfs.ErrNotImplemented), "Create without OpenFile must fail with ErrNotImplemented")
		return
	}
	verifAssert(err == nil, "Create failed")
	info, err := hackpadfs.Stat(m, "f")
	verifAssert(err == nil && info.Size() == 0, "after Create the file is missing or not empty")
	data := verifBytes("data", 2)
	n, err := hackpadfs.WriteFile(f, data)
	verifAssert(err == nil && n == 2, "writing through the created handle failed")
	pos, err := hackpadfs.SeekFile(f, 0, 0)
	verifAssert(err == nil && pos == 0, "Seek on the created handle failed")
	buf := make([]byte, 2)
	n, err = f.Read(buf)
	// (io.EOF together with the last bytes is allowed by io.Reader, as in the C02 check)
	verifAssert((err == nil || err == io.EOF) && n == 2 && buf[0] == data[0] && buf[1] == data[1], "the created handle cannot read back what was written through it (os.Create opens for reading and writing)")
	verifAssert(f.Close() == nil, "Close failed")
	got, err := hackpadfs.ReadFile(m, "f")
	verifAssert(err == nil && len(got) == 2 && got[0] == data[0] && got[1] == data[1], "the file does not hold the written bytes")
}
