package os

import (
	"io"
	goos "os"
	"strings"

	"github.com/hack-pad/hackpadfs"
)

var c09FileCalls = []string{"Read", "ReadAt", "Write", "WriteAt", "WriteString", "ReadFrom", "Seek", "Stat", "ReadDir", "Truncate", "Chmod", "Chown", "Sync", "Close"}

// VerifC09FileMethods: errors of the methods of an os.FS file handle name the FS-relative path the handle
// was opened with, never the OS path below the FS's root - for every method the handle offers. The failing
// condition used is the closed handle (deterministic symbolically - the OS stub - and natively).
func VerifC09FileMethods() {
	dir, err := goos.MkdirTemp("", "verif-c09f-")
	if err != nil {
		panic(err)
	}
	if !verifSymbolic() {
		defer goos.RemoveAll(dir)
		if err := goos.MkdirAll(dir+"/s/d", 0700); err != nil {
			panic(err)
		}
	}
	var fsys hackpadfs.FS
	fsys, err = NewFS().Sub(dir[1:])
	verifAssert(err == nil, "Sub failed")
	name, dname := "s/f", "s/d"
	if verifChoice("nested-sub", 2) == 1 {
		fsys, err = fsys.(*FS).Sub("s")
		verifAssert(err == nil, "Sub(s) failed")
		name, dname = "f", "d"
		verifTag("root", "nested")
	}
	fs := fsys.(*FS)
	var f hackpadfs.File
	if verifChoice("kind", 2) == 0 {
		verifTag("handle", "file")
		f, err = fs.OpenFile(name, hackpadfs.FlagReadWrite|hackpadfs.FlagCreate, 0600)
	} else {
		verifTag("handle", "directory")
		name = dname
		f, err = fs.Open(name)
	}
	verifAssert(err == nil, "open failed")
	verifAssert(f.Close() == nil, "first Close failed")
	c := verifChoice("call", len(c09FileCalls))
	verifTag("call", c09FileCalls[c])
	switch c {
	case 0:
		_, err = f.Read(make([]byte, 1))
	case 1:
		_, err = hackpadfs.ReadAtFile(f, make([]byte, 1), 0)
	case 2:
		_, err = hackpadfs.WriteFile(f, []byte{1})
	case 3:
		_, err = hackpadfs.WriteAtFile(f, []byte{1}, 0)
	case 4:
		_, err = f.(io.StringWriter).WriteString("x")
	case 5:
		_, err = f.(io.ReaderFrom).ReadFrom(strings.NewReader("x"))
	case 6:
		_, err = hackpadfs.SeekFile(f, 0, 0)
	case 7:
		_, err = f.Stat()
	case 8:
		_, err = hackpadfs.ReadDirFile(f, 1)
	case 9:
		err = hackpadfs.TruncateFile(f, 0)
	case 10:
		err = hackpadfs.ChmodFile(f, 0600)
	case 11:
		err = hackpadfs.ChownFile(f, 0, 0)
	case 12:
		err = hackpadfs.SyncFile(f)
	default:
		err = f.Close()
	}
	verifReach("called")
	verifAssert(err != nil, "a call on a closed os.FS handle succeeded")
	pe, ok := err.(*hackpadfs.PathError)
	verifAssert(ok, "the error of a file method is not a *PathError")
	verifAssert(pe.Path == name, "the error of a file method does not name the FS-relative path of the handle")
}

// VerifC09Unrooted: an os.FS that was never given a root (NewFS() used directly): the error of every failing
// method still names the caller's FS-relative path, not the absolute OS path. (Natively the names lie below a
// regular file, so every call fails; symbolically the OS stub fails every call.)
func VerifC09Unrooted() {
	dir, err := goos.MkdirTemp("", "verif-c09u-")
	if err != nil {
		panic(err)
	}
	if !verifSymbolic() {
		defer goos.RemoveAll(dir)
		if err := goos.WriteFile(dir+"/file", []byte("x"), 0600); err != nil {
			panic(err)
		}
	}
	fs := NewFS()
	name := dir[1:] + "/file/" + []string{"x", "d/y"}[verifChoice("name", 2)]
	other := dir[1:] + "/file/o"
	m := verifChoice("method", len(c09Methods))
	verifTag("method", c09Methods[m])
	cerr := c09Call(fs, m, name, other)
	verifReach("called")
	verifAssert(cerr != nil, "a call below a regular file succeeded")
	if m >= 15 {
		le, ok := cerr.(*hackpadfs.LinkError)
		verifAssert(ok, "Rename/Symlink failure must be a *hackpadfs.LinkError")
		verifAssert(le.Old == name && le.New == other, "LinkError must carry the caller's FS-relative names")
		return
	}
	pe, ok := cerr.(*hackpadfs.PathError)
	verifAssert(ok, "failure must be a *PathError")
	if m == 4 || m == 6 {
		return // MkdirAll / RemoveAll name an ancestor
	}
	verifAssert(pe.Path == name, "PathError.Path must be the caller's FS-relative name")
}
