package os

import (
	"errors"
	iofs "io/fs"
	goos "os"
	"syscall"
	"time"

	"github.com/hack-pad/hackpadfs"
)

var c09Methods = []string{"Open", "OpenFile", "Create", "Mkdir", "MkdirAll", "Remove", "RemoveAll", "Stat", "Lstat", "Chmod", "Chown", "Chtimes", "ReadDir", "ReadFile", "WriteFile", "Rename", "Symlink"}

// c09Rooted returns an os.FS whose every OS call fails: natively its root lies below a regular
// file (ENOTDIR for everything); symbolically the OS stub decides.
func c09Rooted() (*FS, func()) {
	dir, err := goos.MkdirTemp("", "verif-c09-")
	if err != nil {
		panic(err)
	}
	cleanup := func() {}
	if !verifSymbolic() {
		if err := goos.WriteFile(dir+"/file", []byte("x"), 0600); err != nil {
			panic(err)
		}
		cleanup = func() { goos.RemoveAll(dir) }
	}
	var fsys hackpadfs.FS = NewFS()
	root := dir[1:] + "/file/r"
	fsys, err = fsys.(*FS).Sub(root)
	verifAssert(err == nil, "Sub failed")
	subs := verifChoice("subs", verifParam("SUBS")+1)
	for i := 0; i < subs; i++ {
		d := c09String(verifName("dir", i), verifParam("DIRLEN"))
		verifAssume(iofs.ValidPath(d))
		fsys, err = fsys.(*FS).Sub(d)
		verifAssert(err == nil, "Sub with a valid directory failed")
	}
	return fsys.(*FS), cleanup
}

func c09Call(fs *FS, m int, name, other string) error {
	switch m {
	case 0:
		_, err := fs.Open(name)
		return err
	case 1:
		_, err := fs.OpenFile(name, hackpadfs.FlagReadWrite|hackpadfs.FlagCreate, 0600)
		return err
	case 2:
		_, err := fs.Create(name)
		return err
	case 3:
		return fs.Mkdir(name, 0700)
	case 4:
		return fs.MkdirAll(name, 0700)
	case 5:
		return fs.Remove(name)
	case 6:
		return fs.RemoveAll(name)
	case 7:
		_, err := fs.Stat(name)
		return err
	case 8:
		_, err := fs.Lstat(name)
		return err
	case 9:
		return fs.Chmod(name, 0600)
	case 10:
		return fs.Chown(name, 1, 1)
	case 11:
		return fs.Chtimes(name, time.Unix(1, 0), time.Unix(2, 0))
	case 12:
		_, err := fs.ReadDir(name)
		return err
	case 13:
		_, err := fs.ReadFile(name)
		return err
	case 14:
		return fs.WriteFile(name, []byte("x"), 0600)
	case 15:
		return fs.Rename(name, other)
	default:
		return fs.Symlink(name, other)
	}
}

// VerifC09Methods: every os.FS method refuses invalid names before any OS call, and errors coming
// back from the OS name the caller's FS-relative path.
func VerifC09Methods() {
	fs, cleanup := c09Rooted()
	defer cleanup()
	m := verifChoice("method", len(c09Methods))
	verifTag("method", c09Methods[m])
	name := c09String("name", verifParam("NAMELEN"))
	other := "o"
	twoNames := m >= 15
	if twoNames {
		other = c09String("other", verifParam("NAMELEN"))
	}
	valid := iofs.ValidPath(name)
	if twoNames {
		valid = iofs.ValidPath(other) && valid
	}
	if name == "." {
		verifTag("name", "dot")
	} else {
		verifTag("name", "other")
	}
	before := verifOSCalls()
	err := c09Call(fs, m, name, other)
	if !valid {
		verifReach("invalid-name")
		verifAssert(err != nil, "an invalid name was accepted")
		verifAssert(errors.Is(err, hackpadfs.ErrInvalid), "the error for an invalid name must match ErrInvalid")
		if verifSymbolic() {
			verifAssert(verifOSCalls() == before, "an OS call was made with an invalid name")
		}
		return
	}
	if verifSymbolic() && verifParam("OSARGS") != 0 {
		// (engine-only harness variant: the OS stub's call log does not exist natively)
		// every OS call made for a valid name uses the OS path of the caller's names, in the caller's order
		want0, e0 := fs.ToOSPath(name)
		verifAssert(e0 == nil, "ToOSPath of a valid name failed")
		want1 := ""
		if twoNames {
			w, e1 := fs.ToOSPath(other)
			verifAssert(e1 == nil, "ToOSPath of a valid name failed")
			want1 = w
		}
		for i := before; i < verifOSCalls(); i++ {
			verifAssert(verifOSCallArg(i, 0) == want0, "an OS call did not receive the OS path of the caller's name")
			if twoNames {
				verifAssert(verifOSCallArg(i, 1) == want1, "an OS call did not receive the OS path of the caller's second name")
			}
		}
	}
	if err == nil {
		verifReach("os-ok")
		return
	}
	verifReach("os-error")
	// the error class of the OS survives the translation: an errno matches the sentinel of the same name
	var pathErr *hackpadfs.PathError
	var linkErr *hackpadfs.LinkError
	var cause error
	if errors.As(err, &pathErr) {
		cause = pathErr.Err
	} else if errors.As(err, &linkErr) {
		cause = linkErr.Err
	}
	if en, ok := cause.(syscall.Errno); ok {
		switch en {
		case syscall.EINVAL:
			verifAssert(errors.Is(err, hackpadfs.ErrInvalid), "an OS failure with EINVAL does not match ErrInvalid")
		case syscall.ENOENT:
			verifAssert(errors.Is(err, hackpadfs.ErrNotExist), "an OS failure with ENOENT does not match ErrNotExist")
		case syscall.EEXIST:
			verifAssert(errors.Is(err, hackpadfs.ErrExist), "an OS failure with EEXIST does not match ErrExist")
		case syscall.ENOTDIR:
			verifAssert(errors.Is(err, hackpadfs.ErrNotDir), "an OS failure with ENOTDIR does not match ErrNotDir")
		case syscall.EISDIR:
			verifAssert(errors.Is(err, hackpadfs.ErrIsDir), "an OS failure with EISDIR does not match ErrIsDir")
		case syscall.ENOTEMPTY:
			verifAssert(errors.Is(err, hackpadfs.ErrNotEmpty), "an OS failure with ENOTEMPTY does not match ErrNotEmpty")
		case syscall.EACCES, syscall.EPERM:
			verifAssert(errors.Is(err, hackpadfs.ErrPermission), "an OS failure with EACCES/EPERM does not match ErrPermission")
		}
	}
	if twoNames {
		le, ok := err.(*hackpadfs.LinkError)
		verifAssert(ok, "Rename/Symlink failure must be a *hackpadfs.LinkError")
		verifObserveStr("old", le.Old)
		verifAssert(le.Old == name, "LinkError.Old must be the caller's FS-relative name")
		verifAssert(le.New == other, "LinkError.New must be the caller's FS-relative name")
		return
	}
	pe, ok := err.(*hackpadfs.PathError)
	verifAssert(ok, "failure must be a *PathError")
	if m == 4 || m == 6 {
		// MkdirAll / RemoveAll may name an ancestor or descendant (natively: the regular file above the root)
		return
	}
	verifObserveStr("path", pe.Path)
	verifAssert(pe.Path == name, "PathError.Path must be the caller's FS-relative name")
}
