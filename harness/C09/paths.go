package os

import (
	"errors"
	iofs "io/fs"
	"strings"

	"github.com/hack-pad/hackpadfs"
)

var c09Volumes = []string{"", "C:", "D:", `\\h\s`}

// c09WinVolume models path/filepath.VolumeName under the Windows convention for the volume shapes
// used here (drive letter, UNC share).
func c09WinVolume(p string) string {
	if len(p) >= 2 && p[1] == ':' {
		return p[:2]
	}
	if len(p) >= 5 && p[0] == '\\' && p[1] == '\\' {
		// \\host\share
		i := 2
		for i < len(p) && p[i] != '\\' {
			i++
		}
		if i > 2 && i+1 < len(p) {
			j := i + 1
			for j < len(p) && p[j] != '\\' {
				j++
			}
			if j > i+1 {
				return p[:j]
			}
		}
	}
	return ""
}

func c09NoVolume(string) string { return "" }

type c09Conv struct {
	goos   string
	sep    rune
	volume func(string) string
}

func c09Convention() c09Conv {
	if verifChoice("convention", 2) == 1 {
		verifTag("convention", "windows")
		return c09Conv{"windows", '\\', c09WinVolume}
	}
	verifTag("convention", "unix")
	return c09Conv{"linux", '/', c09NoVolume}
}

func c09String(name string, maxLen int) string {
	n := verifChoice(name+".len", maxLen+1)
	return verifString(name, n)
}

// c09FS builds an os.FS through the public constructors: optional volume, 0..SUBS Sub calls with
// symbolic (valid) directory names.
func c09FS(conv c09Conv) (*FS, string) {
	fs := NewFS()
	c09Vol = ""
	if conv.goos == "windows" {
		v := verifChoice("volume", len(c09Volumes))
		fs = &FS{volumeName: c09Volumes[v]} // SubVolume validates with the host's filepath.VolumeName; set directly
		verifTag("volume", c09Volumes[v])
		c09Vol = c09Volumes[v]
	}
	subs := verifChoice("subs", verifParam("SUBS")+1)
	root := ""
	orig := fs
	origRoot, _ := orig.toOSPath(conv.goos, conv.sep, "op", ".")
	defer func() {
		// taking a Sub view must not re-root the FS it was taken from
		after, _ := orig.toOSPath(conv.goos, conv.sep, "op", ".")
		verifAssert(after == origRoot, "Sub changed the root of the parent FS")
	}()
	for i := 0; i < subs; i++ {
		dir := c09String(verifName("dir", i), verifParam("DIRLEN"))
		verifAssume(iofs.ValidPath(dir))
		sub, err := fs.Sub(dir)
		verifAssert(err == nil, "Sub with a valid directory failed")
		fs = sub.(*FS)
		if dir != "." {
			if root == "" {
				root = dir
			} else {
				root = root + "/" + dir
			}
		}
	}
	if conv.sep == '\\' && strings.IndexByte(root, '\\') >= 0 {
		verifTag("root", "contains-backslash")
	}
	return fs, root
}

// c09Vol is the volume the FS was created with (Sub views must keep it).
var c09Vol string

func c09Expected(conv c09Conv, fs *FS, root, name string) string {
	p := "/"
	switch {
	case root == "" && name == ".":
	case root == "":
		p += name
	case name == ".":
		p += root
	default:
		p += root + "/" + name
	}
	vol := c09Vol
	if conv.goos == "windows" && vol == "" {
		vol = "C:"
	}
	if conv.sep != '/' {
		p = strings.ReplaceAll(p, "/", string(conv.sep))
	}
	return vol + p
}

// VerifC09To: valid names map to volume + root joined with the name; invalid names are refused.
func VerifC09To() {
	conv := c09Convention()
	fs, root := c09FS(conv)
	name := c09String("name", verifParam("NAMELEN"))
	if conv.sep == '\\' && strings.IndexByte(name, '\\') >= 0 {
		verifTag("name", "contains-backslash")
	}
	got, perr := fs.toOSPath(conv.goos, conv.sep, "op", name)
	if !iofs.ValidPath(name) {
		verifReach("to-invalid")
		verifAssert(perr != nil, "toOSPath accepted an invalid name")
		verifAssert(errors.Is(perr, hackpadfs.ErrInvalid), "toOSPath: error for an invalid name must match ErrInvalid")
		verifAssert(perr.Path == name && perr.Op == "op", "toOSPath: error must name the caller's path")
		return
	}
	verifReach("to-valid")
	verifAssert(perr == nil, "toOSPath refused a valid name")
	// a further Sub is confined as well: a directory that is not a valid path is refused, whatever it would
	// clean to once joined with the root
	for _, bad := range []string{"..", "../..", "x/../..", "x/../../..", "/", "x//y", "./x", ""} {
		_, serr := fs.Sub(bad)
		verifAssert(serr != nil && errors.Is(serr, hackpadfs.ErrInvalid), "Sub accepted a directory that is not a valid path")
	}
	want := c09Expected(conv, fs, root, name)
	verifObserveStr("ospath", got)
	verifAssert(got == want, "toOSPath: OS path differs from volume + root joined with the name")
}

// VerifC09RoundTrip: fromOSPath(toOSPath(name)) == name for valid names.
func VerifC09RoundTrip() {
	conv := c09Convention()
	fs, _ := c09FS(conv)
	name := c09String("name", verifParam("NAMELEN"))
	verifAssume(iofs.ValidPath(name))
	if conv.sep == '\\' {
		hasBackslash := strings.IndexByte(name, '\\') >= 0
		if hasBackslash {
			verifTag("name", "contains-backslash")
		} else {
			verifTag("name", "no-backslash")
		}
	}
	osPath, perr := fs.toOSPath(conv.goos, conv.sep, "op", name)
	verifAssert(perr == nil, "toOSPath refused a valid name")
	back, err := fs.fromOSPath(conv.goos, conv.sep, conv.volume, "op", osPath)
	verifReach("roundtrip")
	verifAssert(err == nil, "fromOSPath refused the OS path of a valid name")
	verifObserveStr("back", back)
	verifAssert(back == name, "fromOSPath(toOSPath(name)) differs from name")
}

// VerifC09From: whatever fromOSPath accepts is inside the root at an element boundary and is a valid FS path.
func VerifC09From() {
	conv := c09Convention()
	fs, root := c09FS(conv)
	rootOS := c09Expected(conv, fs, root, ".")
	// an arbitrary OS path: the root's own OS path (or a proper prefix of it) followed by arbitrary bytes
	cut := verifChoice("cut", 3)
	if k := verifParam("ONLYCUT"); k != 0 {
		verifAssume(cut == k-1) // a variant that spends its length budget on one kind of prefix
	}
	prefix := rootOS
	switch cut {
	case 1:
		if len(prefix) > 0 {
			prefix = prefix[:len(prefix)-1]
		}
	case 2:
		prefix = ""
	}
	tail := c09String("tail", verifParam("TAILLEN"))
	osPath := prefix + tail
	// the public FromOSPath first requires an absolute path (filepath.IsAbs)
	if conv.goos == "windows" {
		v := conv.volume(osPath)
		verifAssume(len(v) > 0)
		verifAssume(len(osPath) > len(v))
		verifAssume(osPath[len(v)] == '\\' || osPath[len(v)] == '/')
	} else {
		verifAssume(len(osPath) > 0)
		verifAssume(osPath[0] == '/')
	}
	got, err := fs.fromOSPath(conv.goos, conv.sep, conv.volume, "op", osPath)
	if err != nil {
		verifReach("from-refused")
		verifAssert(errors.Is(err, hackpadfs.ErrInvalid), "fromOSPath: refusal must match ErrInvalid")
		return
	}
	verifReach("from-accepted")
	verifObserveStr("fspath", got)
	sep := string(conv.sep)
	if conv.goos == "windows" {
		osPath = strings.ReplaceAll(osPath, "/", sep) // Windows accepts both separators
	}
	inside := osPath == rootOS || strings.HasPrefix(osPath, strings.TrimSuffix(rootOS, sep)+sep)
	verifAssert(inside, "fromOSPath accepted an OS path outside the root (or not at an element boundary)")
	verifAssert(iofs.ValidPath(got), "fromOSPath returned a string that is not a valid FS path")
}
