package mount

import (
	"io"
	"sync"

	"github.com/hack-pad/hackpadfs"
	"github.com/hack-pad/hackpadfs/cache"
	"github.com/hack-pad/hackpadfs/mem"
)

// c10Source counts what reaches the source FS and can inject a read fault / pause copies (C11).
type c10Source struct {
	fs        *mem.FS
	opens     map[string]int
	mu        sync.Mutex
	reads     int
	faultRead int // index of the Read call that fails (-1 never)
	short     bool // Reads deliver at most 100 bytes per call (io.Reader allows short reads)
	linky     bool // listed entries of regular files report link-like Info (as os.FS does for symbolic links): Info() is not Stat()
	inCopy    int // ghost: copies of the watched file in progress
	maxInCopy int
	watch     string
}

type c10SrcFile struct {
	hackpadfs.File
	s    *c10Source
	name string
	read bool
}

func (s *c10Source) Open(name string) (hackpadfs.File, error) {
	verifSched("src.open")
	s.mu.Lock()
	s.opens[name]++
	s.mu.Unlock()
	f, err := s.fs.Open(name)
	if err != nil {
		return nil, err
	}
	return &c10SrcFile{File: f, s: s, name: name}, nil
}

var c10ErrRead = &hackpadfs.PathError{Op: "read", Path: "source", Err: hackpadfs.ErrPermission}

func (f *c10SrcFile) Read(p []byte) (int, error) {
	s := f.s
	verifSched("src.read")
	s.mu.Lock()
	i := s.reads
	s.reads++
	if !f.read && f.name == s.watch {
		f.read = true
		s.inCopy++
		if s.inCopy > s.maxInCopy {
			s.maxInCopy = s.inCopy
		}
	}
	s.mu.Unlock()
	if i == s.faultRead {
		return 0, c10ErrRead
	}
	if s.short && len(p) > 100 {
		p = p[:100]
	}
	return f.File.Read(p)
}

func (f *c10SrcFile) Close() error {
	s := f.s
	s.mu.Lock()
	if f.read && f.name == s.watch {
		f.read = false
		s.inCopy--
	}
	s.mu.Unlock()
	return f.File.Close()
}

func (f *c10SrcFile) Seek(offset int64, whence int) (int64, error) {
	return hackpadfs.SeekFile(f.File, offset, whence)
}

func (f *c10SrcFile) ReadDir(n int) ([]hackpadfs.DirEntry, error) {
	entries, err := hackpadfs.ReadDirFile(f.File, n)
	if f.s.linky {
		for i, e := range entries {
			if !e.IsDir() {
				entries[i] = c10LinkEntry{e}
			}
		}
	}
	return entries, err
}

// c10LinkEntry: a directory entry whose Info() describes the entry itself and not what Stat of the name
// reports (the documented behaviour of os.ReadDir for symbolic links: DirEntry.Info is Lstat-like).
// A transparent cache answers Stat and Open from the source's Stat/Open, never from such an Info.
type c10LinkEntry struct{ hackpadfs.DirEntry }

func (e c10LinkEntry) Info() (hackpadfs.FileInfo, error) {
	info, err := e.DirEntry.Info()
	if err != nil {
		return nil, err
	}
	return c10LinkInfo{info}, nil
}

type c10LinkInfo struct{ hackpadfs.FileInfo }

func (i c10LinkInfo) Size() int64             { return 7 }
func (i c10LinkInfo) Mode() hackpadfs.FileMode { return i.FileInfo.Mode() | hackpadfs.ModeSymlink }

// c10Minimal: a cache store exposing only what the constructor requires (Open, OpenFile, Mkdir)
type c10Minimal struct{ fs *mem.FS }

func (m c10Minimal) Open(name string) (hackpadfs.File, error) { return m.fs.Open(name) }
func (m c10Minimal) OpenFile(name string, flag int, perm hackpadfs.FileMode) (hackpadfs.File, error) {
	return m.fs.OpenFile(name, flag, perm)
}
func (m c10Minimal) Mkdir(name string, perm hackpadfs.FileMode) error { return m.fs.Mkdir(name, perm) }

var c10Sizes = []int{0, 1, 2, 511, 512, 513, 1023, 1024, 1025}

// c10Data: concrete fill with symbolic probe bytes at the chunk boundaries.
func c10Data(name string, size int) []byte {
	d := make([]byte, size)
	for i := range d {
		d[i] = byte(i*7 + 3)
	}
	for k, pos := range []int{0, 511, 512, size - 1} {
		if pos >= 0 && pos < size {
			d[pos] = verifByte(verifName(name+".probe", k))
		}
	}
	return d
}

func c10ReadAll(f hackpadfs.File, bufSize int) ([]byte, error) {
	var out []byte
	buf := make([]byte, bufSize)
	for i := 0; i < 4096; i++ {
		n, err := f.Read(buf)
		out = append(out, buf[:n]...)
		if err == io.EOF {
			return out, nil
		}
		if err != nil {
			return out, err
		}
	}
	return out, io.ErrNoProgress
}

func c10Equal(a, b []byte) bool {
	if len(a) != len(b) {
		return false
	}
	for i := range a {
		if a[i] != b[i] {
			return false
		}
	}
	return true
}

// VerifC10Seq: every call on the cache FS returns what the same call on the source returns; a retained
// file that was opened successfully is not read from the source again.
func VerifC10Seq() {
	src, err := mem.NewFS()
	verifAssert(err == nil, "NewFS")
	size := c10Sizes[verifChoice("size", len(c10Sizes))]
	dataF := c10Data("f", size)
	dataG := c10Data("g", 1)
	permF := hackpadfs.FileMode(verifUint32("perm.f")) & 0777
	verifAssert(src.Mkdir("d", 0750) == nil, "Mkdir d")
	verifAssert(hackpadfs.WriteFullFile(src, "d/f", dataF, 0600) == nil, "WriteFullFile d/f")
	verifAssert(src.Chmod("d/f", permF) == nil, "Chmod d/f")
	verifAssert(hackpadfs.WriteFullFile(src, "g", dataG, 0644) == nil, "WriteFullFile g")
	counting := &c10Source{fs: src, opens: map[string]int{}, faultRead: -1}
	if verifParam("SHORTREADS") != 0 {
		counting.short = true
		verifTag("source", "short reads")
	}
	if verifParam("LINKY") != 0 {
		counting.linky = true
		verifTag("source", "link-like entry infos")
		verifAssume(size == 1 || size == 513)
	}
	storeMem, err := mem.NewFS()
	verifAssert(err == nil, "NewFS")
	retainF := verifBool("retain.f")
	opts := cache.ReadOnlyOptions{RetainData: func(name string, info hackpadfs.FileInfo) bool {
		if name == "d/f" {
			return retainF
		}
		return true
	}}
	var cfs *cache.ReadOnlyFS
	if verifChoice("store", 2) == 1 {
		verifTag("store", "minimal")
		cfs, err = cache.NewReadOnlyFS(counting, c10Minimal{storeMem}, opts)
	} else {
		verifTag("store", "full")
		cfs, err = cache.NewReadOnlyFS(counting, storeMem, opts)
	}
	verifAssert(err == nil, "NewReadOnlyFS")
	names := []string{"d/f", "g", "d", ".", "missing"}
	openedF := false
	K := verifParam("K")
	for k := 0; k < K; k++ {
		id := verifName("c", k)
		name := names[verifChoice(id+".name", len(names))]
		switch verifChoice(id+".call", 5) {
		case 4: // directory handle: one page, then the rest
			verifTag("call", "paged-ReadDir")
			f, err := cfs.Open(name)
			if err != nil {
				continue
			}
			info, _ := f.Stat()
			if info.IsDir() {
				all, lerr := hackpadfs.ReadDir(src, name)
				verifAssert(lerr == nil, "ReadDir(source)")
				first, err1 := hackpadfs.ReadDirFile(f, 1)
				if len(all) == 0 {
					verifAssert(len(first) == 0 && err1 == io.EOF, "paged ReadDir of an empty directory must report io.EOF")
				} else {
					verifAssert(err1 == nil && len(first) == 1 && first[0].Name() == all[0].Name(), "first page differs from the source listing")
					rest, err2 := hackpadfs.ReadDirFile(f, -1)
					verifAssert(err2 == nil, "ReadDir(-1) after a page failed")
					verifAssert(len(rest) == len(all)-1, "ReadDir(-1) after a page must return exactly the remaining entries")
					for i := range rest {
						verifAssert(rest[i].Name() == all[i+1].Name(), "remaining entries differ from the source listing")
					}
				}
			}
			_ = f.Close()
		case 0: // Open + read everything
			verifTag("call", "Open+Read")
			before := counting.opens["d/f"]
			f, err := cfs.Open(name)
			sf, serr := src.Open(name)
			verifAssert((err == nil) == (serr == nil), "Open: success differs from the source")
			if err != nil {
				continue
			}
			info, ierr := f.Stat()
			sinfo, _ := sf.Stat()
			verifAssert(ierr == nil && info.IsDir() == sinfo.IsDir() && info.Size() == sinfo.Size(), "handle Stat differs from the source (kind/size)")
			verifAssert(info.Mode() == sinfo.Mode(), "handle Stat differs from the source (mode)")
			if !info.IsDir() {
				bs := []int{1, 100, 512, 600}[verifChoice(id+".buf", 4)]
				got, rerr := c10ReadAll(f, bs)
				want, _ := c10ReadAll(sf, 4096)
				verifAssert(rerr == nil, "reading a cached file failed")
				verifAssert(c10Equal(got, want), "bytes served by the cache differ from the source")
				if name == "d/f" {
					if openedF && retainF {
						verifAssert(counting.opens["d/f"] == before, "a retained file that was already opened successfully was read from the source again")
					}
					openedF = true
				}
			}
			verifAssert(f.Close() == nil, "Close failed")
			_ = sf.Close()
		case 1: // Stat
			verifTag("call", "Stat")
			info, err := cfs.Stat(name)
			sinfo, serr := src.Stat(name)
			verifAssert((err == nil) == (serr == nil), "Stat: success differs from the source")
			if err == nil {
				verifAssert(info.Name() == sinfo.Name() && info.IsDir() == sinfo.IsDir() && info.Size() == sinfo.Size() && info.Mode() == sinfo.Mode(), "Stat differs from the source")
			}
		case 2: // Open, seek, read one byte
			verifTag("call", "Open+Seek+Read")
			f, err := cfs.Open(name)
			if err != nil {
				continue
			}
			info, _ := f.Stat()
			if !info.IsDir() && info.Size() > 0 {
				offs := []int64{0, 1, 510, 511, 512, 513, info.Size() - 1}
				off := offs[verifChoice(id+".off", len(offs))]
				verifAssume(off < info.Size())
				pos, serr := hackpadfs.SeekFile(f, off, io.SeekStart)
				verifAssert(serr == nil && pos == off, "Seek on a cached file failed")
				b := make([]byte, 1)
				n, rerr := f.Read(b)
				verifAssert(n == 1 && (rerr == nil || rerr == io.EOF), "Read after Seek failed")
				want := dataG
				if name == "d/f" {
					want = dataF
				}
				verifAssert(b[0] == want[off], "byte after Seek differs from the source")
			}
			_ = f.Close()
		case 3: // listing
			verifTag("call", "ReadDir")
			entries, err := hackpadfs.ReadDir(cfs, name)
			sentries, serr := hackpadfs.ReadDir(src, name)
			verifAssert((err == nil) == (serr == nil), "ReadDir: success differs from the source")
			if err == nil {
				verifAssert(len(entries) == len(sentries), "ReadDir: number of entries differs from the source")
				for i := range entries {
					verifAssert(entries[i].Name() == sentries[i].Name() && entries[i].IsDir() == sentries[i].IsDir(), "ReadDir: entries differ from the source")
				}
			}
		}
	}
	verifReach("seq-done")
}
