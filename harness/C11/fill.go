package mount

import (
	"errors"
	"sync"

	"github.com/hack-pad/hackpadfs"
	"github.com/hack-pad/hackpadfs/cache"
	"github.com/hack-pad/hackpadfs/keyvalue"
	"github.com/hack-pad/hackpadfs/mem"
)

var c11ErrStore = errors.New("injected cache store failure")

// c11Store: the cache store with one injected failure among its create / write / close calls.
type c11Store struct {
	fs      *mem.FS
	calls   int
	faultAt int
	fired   bool
	where   string
	minimal bool
	// lossyClose: a Close that fails has not flushed everything that was written (buffering stores)
	lossyClose bool
}

func (s *c11Store) fault(what string) bool {
	i := s.calls
	s.calls++
	if i == s.faultAt {
		s.fired, s.where = true, what
		return true
	}
	return false
}

func (s *c11Store) Open(name string) (hackpadfs.File, error) {
	verifSched("store.open")
	return s.fs.Open(name)
}
func (s *c11Store) Mkdir(name string, perm hackpadfs.FileMode) error {
	verifSched("store.mkdir")
	return s.fs.Mkdir(name, perm)
}
func (s *c11Store) OpenFile(name string, flag int, perm hackpadfs.FileMode) (hackpadfs.File, error) {
	verifSched("store.openfile")
	if flag&hackpadfs.FlagCreate != 0 && s.fault("create") {
		return nil, &hackpadfs.PathError{Op: "open", Path: name, Err: c11ErrStore}
	}
	f, err := s.fs.OpenFile(name, flag, perm)
	if err != nil {
		return nil, err
	}
	if flag&hackpadfs.FlagCreate != 0 {
		return &c11File{File: f, s: s}, nil
	}
	return f, nil
}

// c11StoreRemovable additionally offers Remove (a full store); the plain c11Store is the minimal one.
type c11StoreRemovable struct{ *c11Store }

func (s c11StoreRemovable) Remove(name string) error { return s.fs.Remove(name) }
func (s c11StoreRemovable) Stat(name string) (hackpadfs.FileInfo, error) {
	return s.fs.Stat(name)
}
func (s c11StoreRemovable) MkdirAll(name string, perm hackpadfs.FileMode) error {
	return s.fs.MkdirAll(name, perm)
}

type c11File struct {
	hackpadfs.File
	s *c11Store
}

func (f *c11File) Write(p []byte) (int, error) {
	verifSched("store.write")
	if f.s.fault("write") {
		return 0, c11ErrStore
	}
	return hackpadfs.WriteFile(f.File, p)
}

func (f *c11File) Close() error {
	if f.s.fault("close") {
		if f.s.lossyClose {
			// a store that buffers: a failed Close means the tail of the data never reached it
			if info, err := f.File.Stat(); err == nil {
				_ = hackpadfs.TruncateFile(f.File, info.Size()/2)
			}
		}
		_ = f.File.Close()
		return c11ErrStore
	}
	return f.File.Close()
}

var c11Sizes = []int{1, 512, 513, 1500}

// VerifC11Faults: a failed fill (source read, cache create / write / close) makes the Open fail, and
// every later Open yields the complete source bytes or an error - never a truncated file.
func VerifC11Faults() {
	src, err := mem.NewFS()
	verifAssert(err == nil, "NewFS")
	size := c11Sizes[verifChoice("size", len(c11Sizes))]
	data := c10Data("f", size)
	fname := "f"
	if verifChoice("nested", 2) == 1 {
		// a file below a directory (its base name differs from its path)
		fname = "d/f"
		verifTag("file", "nested")
		verifAssert(src.Mkdir("d", 0755) == nil, "Mkdir d")
	}
	verifAssert(hackpadfs.WriteFullFile(src, fname, data, 0644) == nil, "WriteFullFile f")
	source := &c10Source{fs: src, opens: map[string]int{}, faultRead: -1}
	if verifChoice("source-reads", 2) == 1 {
		source.short = true
		verifTag("source", "short reads")
	}
	storeMem, err := mem.NewFS()
	verifAssert(err == nil, "NewFS")
	store := &c11Store{fs: storeMem, faultAt: -1}
	var cfs *cache.ReadOnlyFS
	var kvStore *pStore
	storeKind := verifChoice("store", 3)
	if storeKind == 2 {
		// a different composition: the cache store is a keyvalue.FS over a plain key-value store that may reject a call
		verifTag("store", "keyvalue-over-plain-store")
		kvStore = pNewStore()
		if verifChoice("store-copies", 2) == 1 {
			// the key-value store keeps its own copy of a file's bytes (a remote store): after a rejected Set it
			// holds what the last accepted one gave it - a shorter file
			kvStore.ownCopy = true
			verifTag("store-data", "own-copy")
		}
		kv, kerr := keyvalue.NewFS(kvStore)
		verifAssert(kerr == nil, "keyvalue.NewFS")
		cfs, err = cache.NewReadOnlyFS(source, kv, cache.ReadOnlyOptions{})
	} else if storeKind == 1 {
		verifTag("store", "minimal")
		cfs, err = cache.NewReadOnlyFS(source, store, cache.ReadOnlyOptions{})
	} else {
		verifTag("store", "with-remove")
		cfs, err = cache.NewReadOnlyFS(source, c11StoreRemovable{store}, cache.ReadOnlyOptions{})
	}
	verifAssert(err == nil, "NewReadOnlyFS")
	fault := verifInt("fault")
	verifAssume(fault >= 0)
	if kvStore != nil {
		verifAssume(fault <= 16) // Get and Set calls of the key-value store during one fill
	} else {
		verifAssume(fault <= 5)
	}
	if verifChoice("site", 2) == 0 {
		verifTag("site", "source-read")
		source.faultRead = fault
	} else if kvStore != nil {
		verifTag("site", "cache-store")
		kvStore.calls, kvStore.faultAt = 0, fault
	} else {
		verifTag("site", "cache-store")
		store.faultAt = fault
		if verifChoice("close-failure", 2) == 1 {
			store.lossyClose = true
			verifTag("close-failure", "loses-buffered-data")
		}
	}
	f, err := cfs.Open(fname)
	fired := store.fired || source.reads > source.faultRead && source.faultRead >= 0
	if kvStore != nil {
		fired = fired || kvStore.fired
		kvStore.faultAt = -1
	}
	source.faultRead, store.faultAt = -1, -1
	if !fired {
		verifReach("fault-not-reached")
		// no fault: the fill reported success, so later opens serve the complete file
		verifAssert(err == nil, "a fill without any fault failed")
		if f != nil {
			_ = f.Close()
		}
		g, gerr := cfs.Open(fname)
		verifAssert(gerr == nil, "re-open after a successful fill failed")
		got, rerr := c10ReadAll(g, 700)
		_ = g.Close()
		verifAssert(rerr == nil && c10Equal(got, data), "an Open after a successful fill served a truncated file")
		return
	}
	verifReach("fault-fired")
	if store.fired {
		verifTag("failed", store.where)
	}
	verifAssert(err != nil, "the Open whose cache fill failed reported success")
	if f != nil {
		_ = f.Close()
	}
	// fault-free re-opens
	for i := 0; i < 2; i++ {
		g, err := cfs.Open(fname)
		if err != nil {
			verifReach("reopen-error")
			continue
		}
		got, rerr := c10ReadAll(g, 700)
		_ = g.Close()
		verifAssert(rerr == nil, "reading after a failed fill failed")
		verifAssert(c10Equal(got, data), "an Open after a failed fill served a truncated or mixed file")
		verifReach("reopen-complete")
	}
}

// VerifC11Concurrent (tier B): concurrent first opens of one uncached file: every successful open yields
// the complete bytes and at most one copy is in progress at any moment.
func VerifC11Concurrent() {
	src, err := mem.NewFS()
	verifAssert(err == nil, "NewFS")
	size := []int{1, 513}[verifChoice("size", 2)]
	data := c10Data("f", size)
	verifAssert(hackpadfs.WriteFullFile(src, "f", data, 0644) == nil, "WriteFullFile f")
	// either every goroutine opens f, or goroutine i opens its own file with its own contents (fills of
	// different files run in parallel and must not share anything)
	different := verifChoice("targets", 2) == 1
	names := []string{"f", "f", "f"}
	datas := [][]byte{data, data, data}
	nested := false
	if different {
		verifTag("targets", "different-files")
		names = []string{"f", "g", "h"}
		if verifChoice("nested-dir", 2) == 1 {
			// the files share a directory two levels down that the cache store does not have yet: both fills
			// create it (through the MkdirAll fall-back when the store offers only Mkdir)
			nested = true
			verifTag("targets", "different-files-in-a-new-directory")
			names = []string{"a/b/f", "a/b/g", "a/b/h"}
			verifAssert(src.MkdirAll("a/b", 0755) == nil, "MkdirAll a/b")
			verifAssert(hackpadfs.WriteFullFile(src, names[0], data, 0644) == nil, "WriteFullFile")
		}
		for i := 1; i < 3; i++ {
			datas[i] = make([]byte, size)
			for k := range datas[i] {
				datas[i][k] = byte(k*11 + 100*i)
			}
			verifAssert(hackpadfs.WriteFullFile(src, names[i], datas[i], 0644) == nil, "WriteFullFile")
		}
	}
	source := &c10Source{fs: src, opens: map[string]int{}, faultRead: -1, watch: names[0]}
	if verifParam("FAULTS") != 0 && !different {
		// optionally the first fill fails (its source read fails once): the openers queued behind it fill again,
		// still one at a time
		if k := verifChoice("failing-read", 2); k == 1 {
			source.faultRead = 0
			verifTag("fault", "first source read fails")
		}
	}
	storeMem, err := mem.NewFS()
	verifAssert(err == nil, "NewFS")
	var cfs *cache.ReadOnlyFS
	if nested {
		// the minimal store: Open, OpenFile, Mkdir (no MkdirAll, no Stat, no Remove)
		cfs, err = cache.NewReadOnlyFS(source, &c11Store{fs: storeMem, faultAt: -1}, cache.ReadOnlyOptions{})
	} else {
		cfs, err = cache.NewReadOnlyFS(source, c11StoreRemovable{&c11Store{fs: storeMem, faultAt: -1}}, cache.ReadOnlyOptions{})
	}
	verifAssert(err == nil, "NewReadOnlyFS")
	n := verifParam("GOROUTINES")
	results := make([][]byte, n)
	errs := make([]error, n)
	var wg sync.WaitGroup
	wg.Add(n)
	for i := 0; i < n; i++ {
		i := i
		go func() {
			defer wg.Done()
			verifGo(i + 1)
			defer verifGoDone()
			f, err := cfs.Open(names[i])
			if err != nil {
				errs[i] = err
				return
			}
			results[i], errs[i] = c10ReadAll(f, 600)
			_ = f.Close()
		}()
	}
	wg.Wait()
	verifReach("all-returned")
	failed := 0
	for i := 0; i < n; i++ {
		if errs[i] != nil && source.faultRead == 0 {
			failed++ // the open whose fill hit the injected fault
			continue
		}
		verifAssert(errs[i] == nil, "a concurrent first open failed")
		verifAssert(c10Equal(results[i], datas[i]), "a concurrent first open yielded a partial or mixed file")
	}
	verifAssert(failed <= 1, "more than one open failed although only one source read failed")
	if different {
		// and what was cached is what later opens serve
		for i := 0; i < n; i++ {
			g, err := cfs.Open(names[i])
			verifAssert(err == nil, "re-open failed")
			got, rerr := c10ReadAll(g, 600)
			_ = g.Close()
			verifAssert(rerr == nil && c10Equal(got, datas[i]), "the cache holds a mixed file after concurrent fills of different files")
		}
	}
	verifAssert(source.maxInCopy <= 1, "more than one copy of the file was in progress at the same time")
}
