package tar

import (
	"sync"
	"sync/atomic"
)

// VerifC12PoolUnit drives the buffer pool itself (the unit that bounds how many entries are in flight):
// a pool of MAXBUF buffers and HOLDERS goroutines that each take a buffer, hold it across a scheduling
// point and return it. For every schedule: nobody blocks forever (a buffer's Done() always finds room,
// so the writers' wg.Done() is reached and Done() of the file system closes), no more buffers are ever
// provisioned than the pool's maximum, and two holders never hold the same buffer.
func VerifC12PoolUnit() {
	max := 1 + verifChoice("maxbuf", verifParam("MAXBUF"))
	p := newBufferPool(4, uint64(max))
	n := max + 1 + verifChoice("extra", verifParam("EXTRA"))
	var wg sync.WaitGroup
	wg.Add(n)
	held := make([]*buffer, n)
	for i := 0; i < n; i++ {
		i := i
		go func() {
			defer wg.Done()
			verifGo(i + 1)
			defer verifGoDone()
			b := p.Wait()
			for j := 0; j < n; j++ {
				verifAssert(held[j] != b, "two holders were given the same buffer")
			}
			held[i] = b
			verifSched("holding")
			held[i] = nil
			b.Done()
		}()
	}
	wg.Wait()
	verifReach("all-returned")
	verifAssert(int(atomic.LoadInt64(&p.count)) <= cap(p.buffers), "more buffers were provisioned than the pool's maximum")
	verifAssert(len(p.buffers) == int(atomic.LoadInt64(&p.count)), "a buffer was lost or duplicated")
}
