package tar

import (
	"context"
	"sync"
	"sync/atomic"

	"github.com/hack-pad/hackpadfs"
)

// VerifC12PoolUnit drives the buffer pool itself (the unit that bounds how many entries are in flight):
// a pool of MAXBUF buffers and HOLDERS goroutines that each take a buffer, hold it across a scheduling
// point and return it. For every schedule: nobody blocks forever (a buffer's Done() always finds room,
// so the writers' wg.Done() is reached and Done() of the file system closes), no more buffers are ever
// provisioned than the pool's maximum, and two holders never hold the same buffer.
func VerifC12PoolUnit() {
	max := 1 + verifChoice("maxbuf", verifParam("MAXBUF"))
	p := newBufferPool(4, uint64(max))
	n := max + 1 + verifChoice("extra", verifParam("EXTRA"))
	var wg sync.WaitGroup
	wg.Add(n)
	held := make([]*buffer, n)
	for i := 0; i < n; i++ {
		i := i
		go func() {
			defer wg.Done()
			verifGo(i + 1)
			defer verifGoDone()
			b := p.Wait()
			for j := 0; j < n; j++ {
				verifAssert(held[j] != b, "two holders were given the same buffer")
			}
			held[i] = b
			verifSched("holding")
			held[i] = nil
			b.Done()
		}()
	}
	wg.Wait()
	verifReach("all-returned")
	verifAssert(int(atomic.LoadInt64(&p.count)) <= cap(p.buffers), "more buffers were provisioned than the pool's maximum")
	verifAssert(len(p.buffers) == int(atomic.LoadInt64(&p.count)), "a buffer was lost or duplicated")
}

// VerifC12RootEntry: an archive that carries an entry for the root itself ("./", "." or "/", as written by
// `tar -C dir -cf x.tar .`), before or after a regular file: afterwards the root has the permission bits of
// that entry and the file is there.
func VerifC12RootEntry() {
	mode := hackpadfs.FileMode(verifUint32("mode"))&0777 | 0700
	spelling := []string{"./", ".", "/"}[verifChoice("spelling", 3)]
	first := verifChoice("root-entry-first", 2) == 1
	if first {
		verifTarAdd(spelling, int('5'), int64(mode), 0, 1)
	}
	verifTarAdd("x", int('0'), 0644, 1, 2)
	if !first {
		verifTarAdd(spelling, int('5'), int64(mode), 0, 1)
	}
	tfs, err := NewReaderFS(context.Background(), verifTarReader(-1, -1), ReaderFSOptions{})
	verifAssert(err == nil, "NewReaderFS failed")
	<-tfs.Done()
	verifReach("done")
	verifAssert(tfs.UnarchiveErr() == nil, "unpacking an archive with a root entry failed")
	info, err := hackpadfs.Stat(tfs, ".")
	verifAssert(err == nil && info.IsDir(), "Stat of the root failed")
	verifAssert(info.Mode().Perm() == mode, "the root does not have the permission bits of the archive's root entry")
	_, err = hackpadfs.Stat(tfs, "x")
	verifAssert(err == nil, "an entry of the archive is missing")
}

// VerifC12ManyDirs: an archive with more directory entries than the unpacker's small buffer pool holds (81),
// followed by a file: unpacking finishes and everything is there (an entry that borrows a buffer gives it back).
// One schedule only (round robin): the subject is the count, not the interleaving.
func VerifC12ManyDirs() {
	n := verifParam("DIRS")
	for i := 0; i < n; i++ {
		verifTarAdd(verifName("d", i)+"/", int('5'), 0755, 0, 1)
	}
	verifTarAdd("last", int('0'), 0644, 1, 2)
	tfs, err := NewReaderFS(context.Background(), verifTarReader(-1, -1), ReaderFSOptions{})
	verifAssert(err == nil, "NewReaderFS failed")
	<-tfs.Done()
	verifReach("done")
	verifAssert(tfs.UnarchiveErr() == nil, "unpacking an archive of many directory entries failed")
	_, err = hackpadfs.Stat(tfs, "last")
	verifAssert(err == nil, "the entry after the directories is missing")
	_, err = hackpadfs.Stat(tfs, verifName("d", n-1))
	verifAssert(err == nil, "a directory entry is missing")
}
