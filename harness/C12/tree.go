package tar

import (
	"context"
	"io"
	iofs "io/fs"
	gopath "path"
	"strings"
	"sync"
	"unicode/utf8"

	"github.com/hack-pad/hackpadfs"
	"github.com/hack-pad/hackpadfs/keyvalue"
	"github.com/hack-pad/hackpadfs/keyvalue/blob"
	"github.com/hack-pad/hackpadfs/mem"
)

// VerifC12Names (pure strings): resolvePath normalises an entry name to a valid FS path, or to a
// path that starts with a ".." element (which unpacking must then refuse).
func VerifC12Names() {
	n := verifChoice("name.len", verifParam("NAMELEN")+1)
	name := verifString("name", n)
	verifAssume(utf8.ValidString(name))
	r := resolvePath(name)
	verifReach("resolved")
	verifObserveStr("resolved", r)
	escaping := r == ".." || strings.HasPrefix(r, "../")
	verifAssert(iofs.ValidPath(r) || escaping, "resolvePath returned neither a valid path nor a path starting with '..'")
	// normalisation: './x', '/x', 'a//b' and a trailing '/' are spellings of the same entry
	if iofs.ValidPath(name) {
		verifAssert(r == name, "resolvePath changed a name that is already a valid path")
		verifAssert(resolvePath("./"+name) == name, "'./x' is not normalised to 'x'")
		verifAssert(resolvePath("/"+name) == name, "'/x' is not normalised to 'x'")
		if name != "." {
			verifAssert(resolvePath(name+"/") == name, "a trailing '/' is not removed")
		}
	}
}

// c12Dest: the destination FS with scheduling points at every call the unpacker makes (natively
// forceable schedules), optionally exposing only the interfaces the constructor requires.
type c12Dest struct{ fs *mem.FS }

func (d c12Dest) Open(name string) (hackpadfs.File, error) { return d.fs.Open(name) }
func (d c12Dest) OpenFile(name string, flag int, perm hackpadfs.FileMode) (hackpadfs.File, error) {
	verifSched("dest.openfile " + name)
	return d.fs.OpenFile(name, flag, perm)
}
func (d c12Dest) Chmod(name string, mode hackpadfs.FileMode) error {
	verifSched("dest.chmod " + name)
	return d.fs.Chmod(name, mode)
}
func (d c12Dest) Mkdir(name string, perm hackpadfs.FileMode) error {
	verifSched("dest.mkdir " + name)
	return d.fs.Mkdir(name, perm)
}

// c12DestFull additionally offers MkdirAll and Stat (like the default mem.FS destination)
type c12DestFull struct{ c12Dest }

func (d c12DestFull) MkdirAll(name string, perm hackpadfs.FileMode) error {
	verifSched("dest.mkdirall " + name)
	return d.fs.MkdirAll(name, perm)
}
func (d c12DestFull) Stat(name string) (hackpadfs.FileInfo, error) { return d.fs.Stat(name) }

// c12Store: a locking TransactionStore over the harness' plain store whose transaction steps are
// scheduling points, so that interleavings INSIDE Mkdir / MkdirAll / OpenFile (check, then act) are
// explored too. keyvalue.FS over it is an in-memory FS like mem.FS.
type c12Store struct {
	*pStore
	mu *sync.Mutex
}

type c12Txn struct {
	s       *pStore
	mu      *sync.Mutex
	results []keyvalue.OpResult
	ended   bool
}

func (s c12Store) Transaction(o keyvalue.TransactionOptions) (keyvalue.Transaction, error) {
	verifSched("txn.begin")
	s.mu.Lock()
	return &c12Txn{s: s.pStore, mu: s.mu}, nil
}
func (t *c12Txn) Get(path string) keyvalue.OpID { return t.GetHandler(path, nil) }
func (t *c12Txn) GetHandler(path string, h keyvalue.OpHandler) keyvalue.OpID {
	verifSched("get " + path)
	rec, err := t.s.Get(context.Background(), path)
	t.results = append(t.results, keyvalue.OpResult{Op: keyvalue.OpID(len(t.results)), Record: rec, Err: err})
	return keyvalue.OpID(len(t.results) - 1)
}
func (t *c12Txn) Set(path string, src keyvalue.FileRecord, contents blob.Blob) keyvalue.OpID {
	return t.SetHandler(path, src, contents, nil)
}
func (t *c12Txn) SetHandler(path string, src keyvalue.FileRecord, contents blob.Blob, h keyvalue.OpHandler) keyvalue.OpID {
	verifSched("set " + path)
	err := t.s.Set(context.Background(), path, src)
	t.results = append(t.results, keyvalue.OpResult{Op: keyvalue.OpID(len(t.results)), Err: err})
	return keyvalue.OpID(len(t.results) - 1)
}
func (t *c12Txn) end() {
	if !t.ended {
		t.ended = true
		t.mu.Unlock()
	}
}
func (t *c12Txn) Commit(ctx context.Context) ([]keyvalue.OpResult, error) {
	t.end()
	return t.results, nil
}
func (t *c12Txn) Abort() error { t.end(); return nil }

type c12Entry struct {
	name  string // logical name
	isDir bool
}

var c12Catalogue = []c12Entry{{"a", true}, {"a/x", false}, {"b/c/y", false}, {"z", false}, {"b/c", true}}
var c12Sizes = []int{0, 1, 153599, 153600, 153601}

func c12Spell(name string, isDir bool, k int) string {
	switch k {
	case 1:
		return "./" + name
	case 2:
		return "/" + name
	case 3:
		return strings.Replace(name, "/", "//", 1)
	}
	if isDir {
		return name + "/"
	}
	return name
}

// VerifC12Tree: after unpacking has finished the FS holds exactly the archive's logical tree.
func VerifC12Tree() {
	// choose K distinct entries in a chosen order
	K := 1 + verifChoice("entries", verifParam("MAXENTRIES"))
	var picked []int
	used := make([]bool, len(c12Catalogue))
	for i := 0; i < K; i++ {
		var rest []int
		for j := range c12Catalogue {
			if !used[j] {
				rest = append(rest, j)
			}
		}
		j := rest[verifChoice(verifName("pick", i), len(rest))]
		used[j] = true
		picked = append(picked, j)
	}
	sizes := make([]int, len(c12Catalogue))
	modes := make([]hackpadfs.FileMode, len(c12Catalogue))
	bigUsed := false
	order := ""
	for i, j := range picked {
		ent := c12Catalogue[j]
		modes[j] = hackpadfs.FileMode(verifUint32(verifName("mode", j))) & 0777
		if ent.isDir {
			modes[j] |= 0700 // the unpacker must be able to create children
		}
		if !ent.isDir {
			nsz := len(c12Sizes)
			if bigUsed || verifParam("BIG") == 0 {
				nsz = 2
			}
			sizes[j] = c12Sizes[verifChoice(verifName("size", j), nsz)]
			if sizes[j] > 1 {
				bigUsed = true
			}
		}
		spell := 0
		if i == 0 {
			spell = verifChoice("spelling", 4)
		}
		tf := int('0')
		if ent.isDir {
			tf = int('5')
		}
		verifTarAdd(c12Spell(ent.name, ent.isDir, spell), tf, int64(modes[j]), sizes[j], j+1)
		order += ent.name + " "
	}
	verifTag("order", order)
	dest, err := mem.NewFS()
	verifAssert(err == nil, "NewFS")
	var opts ReaderFSOptions
	switch verifChoice("dest", 3+verifParam("KVDEST")) {
	case 3:
		verifTag("dest", "keyvalue-with-store-steps")
		kv, err := keyvalue.NewFS(c12Store{pNewStore(), new(sync.Mutex)})
		verifAssert(err == nil, "keyvalue.NewFS")
		opts.UnarchiveFS = kv
	case 0:
		verifTag("dest", "minimal")
		opts.UnarchiveFS = c12Dest{dest}
	case 1:
		verifTag("dest", "full")
		opts.UnarchiveFS = c12DestFull{c12Dest{dest}}
	default:
		verifTag("dest", "default")
	}
	tfs, err := NewReaderFS(context.Background(), verifTarReader(-1, -1), opts)
	verifAssert(err == nil, "NewReaderFS failed")
	<-tfs.Done()
	verifReach("done")
	verifAssert(tfs.UnarchiveErr() == nil, "unpacking a well-formed archive failed")
	// expected logical tree
	type want struct {
		isDir bool
		entry int // catalogue index or -1 for an implicit ancestor
	}
	expect := map[string]want{}
	var names []string
	add := func(n string, w want) {
		if _, ok := expect[n]; !ok {
			names = append(names, n)
		}
		expect[n] = w
	}
	for _, j := range picked {
		ent := c12Catalogue[j]
		for d := gopath.Dir(ent.name); d != "."; d = gopath.Dir(d) {
			if _, ok := expect[d]; !ok {
				add(d, want{true, -1})
			}
		}
		add(ent.name, want{ent.isDir, j})
	}
	for _, n := range names {
		w := expect[n]
		info, err := hackpadfs.Stat(tfs, n)
		verifAssert(err == nil, "an entry (or an ancestor of an entry) of the archive is missing")
		verifAssert(info.IsDir() == w.isDir, "kind differs from the archive")
		if w.entry >= 0 {
			verifAssert(info.Mode().Perm() == modes[w.entry], "permission bits differ from the archive's header")
		}
		if !w.isDir {
			f, err := tfs.Open(n)
			verifAssert(err == nil, "Open of an unpacked entry failed")
			finfo, serr := f.Stat()
			verifAssert(serr == nil, "Stat of an unpacked entry failed")
			got, err := c12ReadFile(f, finfo.Size())
			verifAssert(err == nil, "reading an unpacked entry failed")
			_ = f.Close()
			verifAssert(len(got) == sizes[w.entry], "size of an unpacked entry differs from the archive")
			for _, pos := range []int{0, 1, 511, 512, 153598, 153599, 153600} {
				if pos < len(got) {
					verifAssert(int(got[pos]) == (w.entry+1+pos*7)%256, "bytes of an unpacked entry differ from the archive")
				}
			}
		}
	}
	// and nothing else
	count := 0
	werr := hackpadfs.WalkDir(tfs, ".", func(p string, d hackpadfs.DirEntry, err error) error {
		if err != nil {
			return err
		}
		if p != "." {
			count++
			_, ok := expect[p]
			verifAssert(ok, "the unpacked tree contains something that is not in the archive")
		}
		return nil
	})
	verifAssert(werr == nil, "WalkDir failed")
	verifAssert(count == len(names), "the unpacked tree differs from the archive's logical tree")
}

// VerifC12Escape: an entry whose name would resolve outside the root makes unpacking fail and creates nothing.
func VerifC12Escape() {
	names := []string{"../e", "a/../../e", "./../e/f", "..", "x/../../.."}
	k := verifChoice("name", len(names))
	isDir := verifChoice("kind", 2) == 1
	tf := int('0')
	if isDir {
		tf = int('5')
		verifTag("kind", "dir")
	} else {
		verifTag("kind", "file")
	}
	before := verifChoice("before", 2) == 1
	if before {
		verifTarAdd("ok", int('0'), 0644, 1, 3)
	}
	verifTarAdd(names[k], tf, 0755, 1, 9)
	dest, err := mem.NewFS()
	verifAssert(err == nil, "NewFS")
	tfs, err := NewReaderFS(context.Background(), verifTarReader(-1, -1), ReaderFSOptions{UnarchiveFS: c12DestFull{c12Dest{dest}}})
	verifAssert(err == nil, "NewReaderFS failed")
	<-tfs.Done()
	verifReach("done")
	verifAssert(tfs.UnarchiveErr() != nil, "an entry that resolves outside the root did not make unpacking fail")
	entries, err := hackpadfs.ReadDir(dest, ".")
	verifAssert(err == nil, "ReadDir(dest)")
	for _, e := range entries {
		verifAssert(e.Name() == "ok", "something was created for an entry that resolves outside the root")
	}
}

// VerifC12DirRace: a directory entry followed by its child, on a destination whose store steps are
// scheduling points: the background Mkdir/Chmod of the directory entry races with the foreground
// MkdirAll(parent, 0700) of the child; the directory must end up with the header's permission bits.
func VerifC12DirRace() {
	mode := hackpadfs.FileMode(verifUint32("mode"))&0777 | 0700
	verifTarAdd("a/", int('5'), int64(mode), 0, 1)
	verifTarAdd("a/x", int('0'), 0644, 1, 2)
	kv, err := keyvalue.NewFS(c12Store{pNewStore(), new(sync.Mutex)})
	verifAssert(err == nil, "keyvalue.NewFS")
	tfs, err := NewReaderFS(context.Background(), verifTarReader(-1, -1), ReaderFSOptions{UnarchiveFS: kv})
	verifAssert(err == nil, "NewReaderFS failed")
	<-tfs.Done()
	verifReach("done")
	verifAssert(tfs.UnarchiveErr() == nil, "unpacking a well-formed archive failed")
	info, err := hackpadfs.Stat(tfs, "a")
	verifAssert(err == nil && info.IsDir(), "directory entry missing")
	verifAssert(info.Mode().Perm() == mode, "permission bits of a directory entry differ from the archive's header")
	_, err = hackpadfs.Stat(tfs, "a/x")
	verifAssert(err == nil, "child entry missing")
}

// VerifC12Pool: a file larger than the small buffer followed by small files: the pooled buffers must
// not be shared between entries under any schedule of the background writers.
func VerifC12Pool() {
	big := []int{153601, 153600 + 512}[verifChoice("bigsize", 2)]
	verifTarAdd("big", int('0'), 0644, big, 1)
	n := verifParam("SMALL")
	for i := 0; i < n; i++ {
		verifTarAdd(verifName("s", i), int('0'), 0644, 3, 10+20*i)
	}
	dest, err := mem.NewFS()
	verifAssert(err == nil, "NewFS")
	tfs, err := NewReaderFS(context.Background(), verifTarReader(-1, -1), ReaderFSOptions{UnarchiveFS: c12DestFull{c12Dest{dest}}})
	verifAssert(err == nil, "NewReaderFS failed")
	<-tfs.Done()
	verifReach("done")
	verifAssert(tfs.UnarchiveErr() == nil, "unpacking a well-formed archive failed")
	for i := 0; i < n; i++ {
		got, err := hackpadfs.ReadFile(tfs, verifName("s", i))
		verifAssert(err == nil && len(got) == 3, "small entry missing or of the wrong size")
		for p := 0; p < 3; p++ {
			verifAssert(int(got[p]) == (10+20*i+p*7)%256, "a small entry holds another entry's bytes")
		}
	}
	info, err := hackpadfs.Stat(tfs, "big")
	verifAssert(err == nil && info.Size() == int64(big), "large entry missing or of the wrong size")
	bf, err := tfs.Open("big")
	verifAssert(err == nil, "Open of the large entry failed")
	one := make([]byte, 1)
	for _, pos := range []int{0, 1, 511, 512, 153598, 153599, 153600} {
		cnt, _ := hackpadfs.ReadAtFile(bf, one, int64(pos))
		verifAssert(cnt == 1 && int(one[0]) == (1+pos*7)%256, "bytes of the large entry differ from the archive")
	}
	_ = bf.Close()
}

// c12ReadFile returns the file's bytes; for large files only the length and the sampled positions are
// materialised (the rest stays zero and is never compared).
func c12ReadFile(f hackpadfs.File, size int64) ([]byte, error) {
	if size <= 4096 {
		return io.ReadAll(f)
	}
	out := make([]byte, size)
	one := make([]byte, 1)
	for _, pos := range []int{0, 1, 511, 512, 153598, 153599, 153600} {
		if int64(pos) < size {
			n, err := hackpadfs.ReadAtFile(f, one, int64(pos))
			if n != 1 {
				return nil, err
			}
			out[pos] = one[0]
		}
	}
	return out, nil
}
