package tar

import (
	"context"
	"sync"
	"sync/atomic"

	"github.com/hack-pad/hackpadfs/mem"
)

// VerifC13PubSub: no lost wake-up: for every interleaving of Wait, Emit and cancellation, every Wait on
// a key that is emitted (before or after) or whose context is cancelled returns.
func VerifC13PubSub() {
	ctx, cancel := context.WithCancel(context.Background())
	defer cancel()
	ps := newPubsub(ctx)
	keys := []string{"k1", "k2"}
	nWaiters := verifParam("WAITERS")
	var wg sync.WaitGroup
	waited := make([]int, nWaiters)
	released := verifChoice("release", 3) // 0: emit both keys, 1: cancel, 2: emit k1 then cancel
	verifTag("release", []string{"emit", "cancel", "emit+cancel"}[released])
	for i := 0; i < nWaiters; i++ {
		i := i
		waited[i] = verifChoice(verifName("key", i), len(keys))
		wg.Add(1)
		go func() {
			defer wg.Done()
			ps.Wait(keys[waited[i]])
		}()
	}
	wg.Add(1)
	go func() {
		defer wg.Done()
		switch released {
		case 0:
			ps.Emit("k1")
			ps.Emit("k2")
			ps.Emit("k1") // emitting twice is harmless
		case 1:
			cancel()
		default:
			ps.Emit("k1")
			cancel()
		}
	}()
	wg.Wait() // a lost wake-up shows as a deadlock here
	verifReach("all-waiters-returned")
	// a Wait after the fact returns at once
	ps.Wait("k1")
	if released == 0 {
		ps.Wait("k2")
	}
}

// VerifC13Pool: the buffer pool never hands out more than its bound and Wait never blocks while a
// buffer is free or may still be added.
func VerifC13Pool() {
	max := verifParam("MAXBUF")
	p := newBufferPool(4, uint64(max))
	n := verifParam("USERS")
	var inUse, peak int64
	var wg sync.WaitGroup
	for i := 0; i < n; i++ {
		wg.Add(1)
		go func() {
			defer wg.Done()
			for r := 0; r < 2; r++ {
				b := p.Wait()
				cur := atomic.AddInt64(&inUse, 1)
				for {
					old := atomic.LoadInt64(&peak)
					if cur <= old || atomic.CompareAndSwapInt64(&peak, old, cur) {
						break
					}
				}
				verifAssert(len(b.Data) == 4, "buffer of the wrong size")
				atomic.AddInt64(&inUse, -1)
				b.Done()
			}
		}()
	}
	wg.Wait()
	verifReach("pool-done")
	verifAssert(atomic.LoadInt64(&peak) <= int64(max), "more buffers in use than the pool's bound")
	verifAssert(atomic.LoadInt64(&p.count) <= int64(max), "the pool provisioned more buffers than its bound")
}

// VerifC13ManyFail: an archive of several small entries unpacked into a destination that refuses every
// create: however many background writers fail (the error channel has one slot), the reader finishes, Done()
// closes, the failure is recorded and an Open returns.
func VerifC13ManyFail() {
	n := 2 + verifChoice("entries", verifParam("ENTRIES")-1)
	for i := 0; i < n; i++ {
		verifTarAdd(verifName("s", i), int('0'), 0644, 3, 10+i)
	}
	dest, err := mem.NewFS()
	verifAssert(err == nil, "NewFS")
	st := &c13State{faultFrom: 0}
	tfs, err := NewReaderFS(context.Background(), verifTarReader(-1, -1), ReaderFSOptions{UnarchiveFS: c13Dest{fs: dest, st: st}})
	verifAssert(err == nil, "NewReaderFS failed")
	<-tfs.Done()
	verifReach("done")
	verifAssert(tfs.UnarchiveErr() != nil, "every create was refused but unpacking reports success")
	_, oerr := tfs.Open("s0")
	verifAssert(oerr != nil, "Open succeeded although unpacking failed")
}
