package tar

import (
	"context"
	"errors"
	"io"
	"sync"

	"github.com/hack-pad/hackpadfs"
	"github.com/hack-pad/hackpadfs/mem"
)

var c13ErrDest = errors.New("injected destination failure")

// c13Dest: destination FS with scheduling points and fault injection on OpenFile / Write / Mkdir / Chmod.
type c13Dest struct {
	fs      *mem.FS
	st      *c13State
}

type c13State struct {
	mu        sync.Mutex
	calls     int
	faultFrom int // calls with index >= faultFrom fail (-1: never)
	faultOnly bool // only the call with index == faultFrom fails
	fired     bool
}

func (s *c13State) fault() bool {
	s.mu.Lock()
	defer s.mu.Unlock()
	i := s.calls
	s.calls++
	if s.faultFrom >= 0 && (i == s.faultFrom || (!s.faultOnly && i > s.faultFrom)) {
		s.fired = true
		return true
	}
	return false
}

func (d c13Dest) Open(name string) (hackpadfs.File, error) { return d.fs.Open(name) }
func (d c13Dest) Stat(name string) (hackpadfs.FileInfo, error) { return d.fs.Stat(name) }
func (d c13Dest) MkdirAll(name string, perm hackpadfs.FileMode) error { return d.fs.MkdirAll(name, perm) }
func (d c13Dest) OpenFile(name string, flag int, perm hackpadfs.FileMode) (hackpadfs.File, error) {
	verifSched("dest.openfile " + name)
	if d.st.fault() {
		return nil, &hackpadfs.PathError{Op: "open", Path: name, Err: c13ErrDest}
	}
	f, err := d.fs.OpenFile(name, flag, perm)
	if err != nil {
		return nil, err
	}
	return &c13File{File: f, d: d, name: name}, nil
}
func (d c13Dest) Chmod(name string, mode hackpadfs.FileMode) error {
	verifSched("dest.chmod " + name)
	if d.st.fault() {
		return &hackpadfs.PathError{Op: "chmod", Path: name, Err: c13ErrDest}
	}
	return d.fs.Chmod(name, mode)
}
func (d c13Dest) Mkdir(name string, perm hackpadfs.FileMode) error {
	verifSched("dest.mkdir " + name)
	if d.st.fault() {
		return &hackpadfs.PathError{Op: "mkdir", Path: name, Err: c13ErrDest}
	}
	return d.fs.Mkdir(name, perm)
}

type c13File struct {
	hackpadfs.File
	d    c13Dest
	name string
}

func (f *c13File) Write(p []byte) (int, error) {
	verifSched("dest.write " + f.name)
	if f.d.st.fault() {
		return 0, c13ErrDest
	}
	return hackpadfs.WriteFile(f.File, p)
}

var c13Sizes = []int{3, 1025, 153601}
var c13OpenNames = []string{"f", "g", "missing", "."}

func c13Content(fill, i int) byte { return byte((fill + i*7) % 256) }

var c13Samples = []int{0, 1, 2, 511, 512, 1024, 153599, 153600}

// c13ReadFile returns the file's bytes; for large files only its length and sampled positions are
// materialised (the rest is left zero and never compared).
func c13ReadFile(f hackpadfs.File, size int64) ([]byte, error) {
	if size <= 4096 {
		return io.ReadAll(f)
	}
	out := make([]byte, size)
	one := make([]byte, 1)
	for _, pos := range c13Samples {
		if int64(pos) < size {
			n, err := hackpadfs.ReadAtFile(f, one, int64(pos))
			if n != 1 {
				return nil, err
			}
			out[pos] = one[0]
		}
	}
	return out, nil
}

// VerifC13Stream: while the archive streams in, under every schedule of the reader, its background
// writers, the openers and an optional canceller, and with an optional stream cut / reader error /
// destination failure: a successful Open of a regular entry yields the complete bytes; every Open and
// Done returns; after a failure an entry that was not completely unpacked cannot be opened.
func VerifC13Stream() {
	sizeF := c13Sizes[verifChoice("size", verifParam("NSIZES"))]
	bigMode := verifParam("BIGMODE") != 0
	if bigMode {
		sizeF = 153601 // larger than the 150 KiB small buffer: written in the foreground in two steps
	}
	verifTarAdd("f", int('0'), 0644, sizeF, 5)
	verifTarAdd("g", int('0'), 0600, 3, 9)
	sizes := map[string]int{"f": sizeF, "g": 3}
	fills := map[string]int{"f": 5, "g": 9}
	totalBlocks := 1 + (sizeF+511)/512 + 1 + 1
	dup := verifParam("DUP") != 0
	if dup {
		// the name f occurs a second time with other contents: a later entry replaces an earlier one. The second
		// copy is larger than the small buffer, so it is written by the reader itself (schedules stay forceable:
		// only one background writer per name)
		verifTarAdd("f", int('0'), 0644, 153601, 11)
		totalBlocks += 1 + 301
	}
	cut, failAt := -1, -1
	st := &c13State{faultFrom: -1}
	kind := verifChoice("disturbance", 6)
	if bigMode {
		verifAssume(kind == 0 || kind == 1 || kind == 2 || kind == 5)
	}
	if dup {
		verifAssume(kind <= 2) // none, truncated stream, reader error (inside the second copy)
	}
	if k := verifParam("ONLYKIND"); k != 0 {
		verifAssume(kind == k-1) // a variant of the harness that spends its schedule budget on one disturbance
	}
	kinds := []string{"none", "truncated-stream", "reader-error", "destination-failure", "destination-fails-from", "cancellation"}
	verifTag("disturbance", kinds[kind])
	pickBlock := func() int {
		// representative cut points: before/inside/after each header and data area
		pts := []int{0, 1, 2, (sizeF+511)/512 + 1, (sizeF+511)/512 + 2, totalBlocks - 1}
		if dup {
			// inside the second copy of f: after its header, after its first and second data block
			pts = []int{totalBlocks - 301, totalBlocks - 150, totalBlocks - 1}
		}
		if bigMode {
			pts = []int{301, (sizeF+511)/512 + 1} // inside the second write step of the large entry; after it
		}
		return pts[verifChoice("block", len(pts))]
	}
	switch kind {
	case 1:
		cut = pickBlock()
	case 2:
		failAt = pickBlock()
	case 3:
		st.faultFrom, st.faultOnly = verifChoice("fault", 5), true
	case 4:
		st.faultFrom = verifChoice("fault", 3)
	}
	dest, err := mem.NewFS()
	verifAssert(err == nil, "NewFS")
	ctx, cancel := context.WithCancel(context.Background())
	defer cancel()
	tfs, err := NewReaderFS(ctx, verifTarReader(cut, failAt), ReaderFSOptions{UnarchiveFS: c13Dest{fs: dest, st: st}})
	verifAssert(err == nil, "NewReaderFS failed")
	n := verifParam("OPENERS")
	openErr := make([]error, n)
	openData := make([][]byte, n)
	openName := make([]string, n)
	var wg sync.WaitGroup
	for i := 0; i < n; i++ {
		i := i
		nNames := len(c13OpenNames)
		if k := verifParam("NOPEN"); k != 0 {
			nNames = k
		}
		openName[i] = c13OpenNames[verifChoice(verifName("open", i), nNames)]
		verifTag(verifName("opens", i), openName[i])
		wg.Add(1)
		go func() {
			defer wg.Done()
			verifGo(i + 1)
			defer verifGoDone()
			verifSched("before-open")
			f, err := tfs.Open(openName[i])
			if err != nil {
				openErr[i] = err
				return
			}
			info, serr := f.Stat()
			if serr == nil && !info.IsDir() {
				openData[i], openErr[i] = c13ReadFile(f, info.Size())
			}
			_ = f.Close()
		}()
	}
	if kind == 5 {
		wg.Add(1)
		go func() {
			defer wg.Done()
			verifGo(9)
			defer verifGoDone()
			verifSched("cancel")
			cancel()
		}()
	}
	wg.Wait()
	<-tfs.Done()
	verifReach("all-returned")
	check := func(name string, data []byte, err error, when string) {
		size, known := sizes[name]
		if err != nil || !known {
			return
		}
		fill := fills[name]
		if dup && name == "f" && len(data) > 3 {
			size, fill = 153601, 11 // the second copy, complete
		}
		verifAssert(len(data) == size, when+": Open succeeded with missing or partial bytes")
		for _, pos := range c13Samples {
			if pos < len(data) {
				verifAssert(data[pos] == c13Content(fill, pos), when+": Open succeeded with wrong bytes")
			}
		}
	}
	for i := 0; i < n; i++ {
		if openName[i] == "missing" {
			verifAssert(openErr[i] != nil, "Open of a name that is not in the archive succeeded")
		}
		check(openName[i], openData[i], openErr[i], "while streaming")
	}
	// after the end
	uerr := tfs.UnarchiveErr()
	if kind == 0 {
		verifAssert(uerr == nil, "unpacking an undisturbed archive failed")
	}
	if (kind == 3 || kind == 4) && st.fired {
		verifAssert(uerr != nil, "a destination failure did not make unpacking fail")
	}
	for _, name := range []string{"f", "g"} {
		f, err := tfs.Open(name)
		if err != nil {
			continue
		}
		info, serr := f.Stat()
		verifAssert(serr == nil, "Stat of an unpacked entry failed")
		data, rerr := c13ReadFile(f, info.Size())
		_ = f.Close()
		verifAssert(rerr == nil, "reading an unpacked entry failed")
		check(name, data, nil, "after the end")
		if kind == 0 {
			verifReach("complete-after-end")
		}
	}
	if kind == 0 {
		_, e1 := tfs.Open("f")
		verifAssert(e1 == nil, "after an undisturbed stream an entry cannot be opened")
	}
}
