package mount

import (
	"context"
	"errors"
	"io"
	"sync"

	"github.com/hack-pad/hackpadfs"
	"github.com/hack-pad/hackpadfs/keyvalue"
	"github.com/hack-pad/hackpadfs/keyvalue/blob"
)

// c14TxnStore: a TransactionStore over the fault-injecting plain store whose transactions queue their
// operations and run them at Commit, so a store failure only shows up as a per-operation result.
type c14TxnStore struct {
	*pStore
	mu *sync.Mutex // held from Transaction() until Commit/Abort, like the in-memory store's
	// whole: an atomic store - a commit one of whose operations the store rejects fails as a whole
	// (Commit returns the error and no results) and applies nothing
	whole bool
	// refuse: beginning a transaction counts as a store call and can be the one that fails
	refuse bool
}

type c14Op struct {
	get     bool
	path    string
	src     keyvalue.FileRecord
	handler keyvalue.OpHandler
}

type c14Txn struct {
	s       *pStore
	whole   bool
	mu      *sync.Mutex
	ops     []c14Op
	aborted bool
	ended   bool
}

func (s c14TxnStore) Transaction(options keyvalue.TransactionOptions) (keyvalue.Transaction, error) {
	if s.refuse && !s.faultLazy && s.fault() {
		return nil, pErrInjected
	}
	s.mu.Lock()
	return &c14Txn{s: s.pStore, mu: s.mu, whole: s.whole}, nil
}

func (t *c14Txn) end() {
	if !t.ended {
		t.ended = true
		t.mu.Unlock()
	}
}

func (t *c14Txn) Get(path string) keyvalue.OpID { return t.GetHandler(path, nil) }
func (t *c14Txn) GetHandler(path string, h keyvalue.OpHandler) keyvalue.OpID {
	t.ops = append(t.ops, c14Op{get: true, path: path, handler: h})
	return keyvalue.OpID(len(t.ops) - 1)
}
func (t *c14Txn) Set(path string, src keyvalue.FileRecord, contents blob.Blob) keyvalue.OpID {
	return t.SetHandler(path, src, contents, nil)
}
func (t *c14Txn) SetHandler(path string, src keyvalue.FileRecord, contents blob.Blob, h keyvalue.OpHandler) keyvalue.OpID {
	t.ops = append(t.ops, c14Op{path: path, src: src, handler: h})
	return keyvalue.OpID(len(t.ops) - 1)
}
func (t *c14Txn) Abort() error { t.aborted = true; t.end(); return nil }
func (t *c14Txn) Commit(ctx context.Context) ([]keyvalue.OpResult, error) {
	defer t.end()
	if t.aborted {
		return nil, context.Canceled
	}
	if t.whole && !t.s.faultLazy && t.s.faultAt >= t.s.calls && t.s.faultAt < t.s.calls+len(t.ops) {
		t.s.calls += len(t.ops)
		t.s.fired = true
		return nil, pErrInjected
	}
	results := make([]keyvalue.OpResult, len(t.ops))
	for i, op := range t.ops {
		res := keyvalue.OpResult{Op: keyvalue.OpID(i)}
		if op.get {
			res.Record, res.Err = t.s.Get(ctx, op.path)
		} else {
			res.Err = t.s.Set(ctx, op.path, op.src)
		}
		if op.handler != nil {
			if herr := op.handler.Handle(t, res); herr != nil && res.Err == nil {
				res.Err = herr
			}
		}
		results[i] = res
	}
	return results, nil
}

// VerifC14Faults: one store call (or one lazy Data()/ReadDirNames() evaluation) fails; the FS operation
// that needed it returns an error or its complete effect is stored; nothing panics or hangs; afterwards
// the FS shows exactly what the store holds.
func VerifC14Faults() {
	store := pNewStore()
	if verifParam("OWNCOPY") != 0 && verifChoice("store-copies", 2) == 1 {
		store.ownCopy = true
		verifTag("store-data", "own-copy")
	}
	var fs hackpadfs.FS
	var err error
	if kind := verifChoice("store-kind", 4); kind == 3 {
		verifTag("store", "transaction-store-refusing-to-begin")
		fs, err = keyvalue.NewFS(c14TxnStore{store, new(sync.Mutex), false, true})
	} else if kind == 2 {
		verifTag("store", "atomic-transaction-store")
		fs, err = keyvalue.NewFS(c14TxnStore{store, new(sync.Mutex), true, false})
	} else if kind == 1 {
		verifTag("store", "transaction-store")
		fs, err = keyvalue.NewFS(c14TxnStore{store, new(sync.Mutex), false, false})
	} else {
		verifTag("store", "plain-store")
		fs, err = keyvalue.NewFS(store)
	}
	verifAssert(err == nil, "keyvalue.NewFS failed")
	t := rNewTree()
	rSymTree(fs, t)
	// a handle opened before the failure
	var h hackpadfs.File
	if t.kind("b") == rFile {
		h, err = hackpadfs.OpenFile(fs, "b", hackpadfs.FlagReadWrite, 0)
		verifAssert(err == nil, "OpenFile b")
	}
	fault := verifInt("fault")
	verifAssume(fault >= 0)
	verifAssume(fault <= verifParam("MAXFAULT"))
	lazy := verifChoice("fault-kind", 2) == 1
	if lazy {
		verifTag("fault", "lazy-evaluation")
	} else {
		verifTag("fault", "store-call")
	}
	store.faultAt, store.faultLazy, store.calls = fault, lazy, 0
	op := verifChoice("op", len(rOpNames))
	before := t.clone()
	r := rStep(fs, t, op, false)
	store.faultAt = -1
	verifReach("op-returned")
	if !store.fired {
		return
	}
	verifReach("fault-fired")
	mutating := op <= 8
	if r.err == nil {
		verifTag("result", "success")
		if mutating && r.errno == 0 {
			// success reported: the store must hold the complete effect
			rCompare(fs, t, "operation reported success although the store failed: final state")
		}
		if r.errno != 0 {
			verifAssert(false, "the operation reported success where it must fail (a failed listing or lookup was taken for an empty result)")
		}
	} else {
		verifTag("result", "error")
	}
	// afterwards: further operations return results or errors, never panic; the FS shows what the store holds
	for _, p := range rClosure() {
		_, serr := hackpadfs.Stat(fs, p)
		held := store.find(p) >= 0
		if held {
			verifAssert(serr == nil, "after the failure: the store holds a record the FS does not show")
		} else {
			verifAssert(serr != nil, "after the failure: the FS shows an entry the store does not hold")
		}
		if serr == nil {
			_, _ = hackpadfs.ReadDir(fs, p)
		}
	}
	if h != nil {
		_, _ = h.Stat()
		buf := make([]byte, 1)
		_, _ = h.Read(buf)
		_, _ = hackpadfs.WriteFile(h, []byte{1})
		_ = h.Close()
	}
	_ = before
	_ = errors.Is
	verifReach("afterwards-ok")
}

// VerifC14Handle: a store failure (a store call or the lazy evaluation of a record's data) while an
// already open handle is used: every call returns a result or an error - no panic, no hang - also on
// the calls that follow the failure.
func VerifC14Handle() {
	store := pNewStore()
	if verifChoice("store-copies", 2) == 1 {
		store.ownCopy = true // a store that keeps its own copy (a remote store): the handle's bytes can run ahead of it
		verifTag("store-data", "own-copy")
	}
	var fs hackpadfs.FS
	var err error
	if kind := verifChoice("store-kind", 4); kind == 3 {
		verifTag("store", "transaction-store-refusing-to-begin")
		fs, err = keyvalue.NewFS(c14TxnStore{store, new(sync.Mutex), false, true})
	} else if kind == 2 {
		verifTag("store", "atomic-transaction-store")
		fs, err = keyvalue.NewFS(c14TxnStore{store, new(sync.Mutex), true, false})
	} else if kind == 1 {
		verifTag("store", "transaction-store")
		fs, err = keyvalue.NewFS(c14TxnStore{store, new(sync.Mutex), false, false})
	} else {
		verifTag("store", "plain-store")
		fs, err = keyvalue.NewFS(store)
	}
	verifAssert(err == nil, "keyvalue.NewFS failed")
	data := verifBytes("data", 2)
	verifAssert(hackpadfs.WriteFullFile(fs, "b", data, 0644) == nil, "WriteFullFile")
	verifAssert(hackpadfs.Mkdir(fs, "d", 0755) == nil, "Mkdir")
	verifAssert(hackpadfs.WriteFullFile(fs, "d/x", data, 0644) == nil, "WriteFullFile d/x")
	target := []string{"b", "d"}[verifChoice("target", 2)]
	flags := hackpadfs.FlagReadWrite
	if target == "d" {
		flags = hackpadfs.FlagReadOnly
	}
	h, err := hackpadfs.OpenFile(fs, target, flags, 0)
	verifAssert(err == nil, "OpenFile")
	fault := verifInt("fault")
	verifAssume(fault >= 0)
	verifAssume(fault <= verifParam("MAXFAULT"))
	lazy := verifChoice("fault-kind", 2) == 1
	if lazy {
		verifTag("fault", "lazy-evaluation")
	} else {
		verifTag("fault", "store-call")
	}
	store.faultAt, store.faultLazy, store.calls = fault, lazy, 0
	K := verifParam("K")
	// model of what the handle reported as done: offset, size and the bytes it claims to have written
	// (after a mutation that reported failure the handle's own view is unspecified: it may or may not include it)
	off, size, unknown, grown := int64(0), int64(len(data)), false, false
	fresh := func(when string) []byte {
		// a fresh look-up, outside the fault schedule (the store's call counter is restored afterwards)
		savedAt, savedCalls := store.faultAt, store.calls
		store.faultAt = -1
		got, rerr := hackpadfs.ReadFile(fs, "b")
		store.faultAt, store.calls = savedAt, savedCalls
		verifAssert(rerr == nil, when+": a fresh ReadFile fails although the store is healthy")
		return got
	}
	for i := 0; i < K; i++ {
		c := verifChoice(verifName("call", i), 8)
		verifTag("last-call", []string{"Read", "Stat", "Write", "Seek-end", "Truncate", "ReadDir", "Chmod", "WriteAt"}[c])
		switch c {
		case 0:
			buf := make([]byte, 1)
			n, rerr := h.Read(buf)
			verifAssert(n >= 0 && n <= 1, "Read count out of range")
			if n == 1 && rerr == nil && target == "b" {
				verifAssert(buf[0] == data[0] || buf[0] == data[1] || buf[0] == 7 || grown && buf[0] == 0, "Read returned a byte that was never written")
			}
			if target == "b" {
				if rerr == io.EOF && n == 0 && !unknown {
					verifAssert(off >= size, "Read reports a clean end of file before the end of what the store holds (a failed load was swallowed)")
				}
				off += int64(n)
			}
		case 1:
			info, serr := h.Stat()
			if serr == nil {
				_ = info.Size()
				_ = info.Mode()
			}
		case 2:
			if unknown {
				// after a mutation that reported failure the handle's offset is unspecified: ask the handle
				// (Seek(0, current) does not touch the store)
				if pos, perr := hackpadfs.SeekFile(h, 0, 1); perr == nil {
					off = pos
				}
			}
			n, werr := hackpadfs.WriteFile(h, []byte{7})
			if werr != nil {
				unknown = true
			}
			if target == "b" && werr == nil {
				verifAssert(n == 1, "Write reports success with a short count")
				got := fresh("after a successful Write")
				verifAssert(int64(len(got)) > off && got[off] == 7, "Write reported success but the store does not hold the byte")
				off++
				if off > size {
					size = off
				}
			}
		case 3:
			pos, serr := hackpadfs.SeekFile(h, 0, 2)
			if target == "b" && serr == nil && !unknown {
				verifAssert(pos == size, "Seek to the end reports success with a position that is not the file's size")
				off = pos
			}
		case 4:
			// to 1 byte (shrinks) or to 3 (grows the 2-byte file; a no-op for a handle that a rejected Write left at 3)
			tsize := int64(1 + 2*verifChoice(verifName("tsize", i), 2))
			if tsize == 3 {
				grown = true
			}
			terr := hackpadfs.TruncateFile(h, tsize)
			if terr != nil {
				unknown = true
			}
			if target == "b" && terr == nil {
				got := fresh("after a successful Truncate")
				verifAssert(int64(len(got)) == tsize, "Truncate reported success but the store does not hold a file of that size")
				size = tsize
			}
		case 5:
			_, _ = hackpadfs.ReadDirFile(h, -1)
		case 7:
			// a positioned write (the natural retry of a write that failed: same bytes, same place)
			n, werr := hackpadfs.WriteAtFile(h, []byte{7}, 0)
			if werr != nil {
				unknown = true
			}
			if target == "b" && werr == nil {
				verifAssert(n == 1, "WriteAt reports success with a short count")
				got := fresh("after a successful WriteAt")
				verifAssert(len(got) > 0 && got[0] == 7, "WriteAt reported success but the store does not hold the byte")
			}
		case 6:
			// a Chmod through the handle that reports success is in the store (also when it repeats one that failed)
			cerr := hackpadfs.ChmodFile(h, 0600)
			if cerr == nil {
				savedAt, savedCalls := store.faultAt, store.calls
				store.faultAt = -1
				info, serr := hackpadfs.Stat(fs, target)
				store.faultAt, store.calls = savedAt, savedCalls
				verifAssert(serr == nil && info.Mode().Perm() == 0600, "Chmod through the handle reported success but a fresh Stat does not show the mode")
			}
		}
	}
	verifReach("handle-calls-returned")
	store.faultAt = -1
	_ = h.Close()
	// the FS itself keeps working
	_, serr := hackpadfs.Stat(fs, "b")
	verifAssert(serr == nil, "after the failure Stat of an existing file fails")
}

// VerifC14Outage: the store refuses every call (an outage that lasts longer than one call): every
// file-system operation returns an error - none reports success, none panics or hangs - handles opened
// before keep answering, and once the store is back the file system shows exactly what it held before.
func VerifC14Outage() {
	store := pNewStore()
	var fs hackpadfs.FS
	var err error
	if kind := verifChoice("store-kind", 4); kind == 3 {
		verifTag("store", "transaction-store-refusing-to-begin")
		fs, err = keyvalue.NewFS(c14TxnStore{store, new(sync.Mutex), false, true})
	} else if kind == 2 {
		verifTag("store", "atomic-transaction-store")
		fs, err = keyvalue.NewFS(c14TxnStore{store, new(sync.Mutex), true, false})
	} else if kind == 1 {
		verifTag("store", "transaction-store")
		fs, err = keyvalue.NewFS(c14TxnStore{store, new(sync.Mutex), false, false})
	} else {
		verifTag("store", "plain-store")
		fs, err = keyvalue.NewFS(store)
	}
	verifAssert(err == nil, "keyvalue.NewFS failed")
	t := rNewTree()
	rSymTree(fs, t)
	before := t.clone()
	var h hackpadfs.File
	if t.kind("b") == rFile {
		h, err = hackpadfs.OpenFile(fs, "b", hackpadfs.FlagReadWrite, 0)
		verifAssert(err == nil, "OpenFile b")
	}
	store.failing = true
	K := verifParam("K")
	for i := 0; i < K; i++ {
		r := rStep(fs, t.clone(), verifChoice(verifName("op", i), len(rOpNames)), false)
		verifAssert(r.err != nil, "an operation reported success although the store refuses every call")
	}
	verifReach("ops-returned")
	if h != nil {
		_, _ = h.Stat()
		_, _ = h.Read(make([]byte, 1))
		_, werr := hackpadfs.WriteFile(h, []byte{1})
		verifAssert(werr != nil, "a Write through an open handle reported success although the store refuses every call")
		_ = h.Close()
	}
	store.failing = false
	rCompare(fs, before, "after the outage")
	verifReach("afterwards-ok")
}
