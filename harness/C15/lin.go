package mem

import (
	"context"
	"sync"

	"github.com/hack-pad/hackpadfs"
	"github.com/hack-pad/hackpadfs/keyvalue"
	"github.com/hack-pad/hackpadfs/keyvalue/blob"
)

// c15Store wraps the in-memory store so that every store-level step is a scheduling point of the
// harness (and can be forced natively on replay). keyvalue.FS over it is mem.FS with these points.
type c15Store struct{ s *store }

func (c c15Store) Get(ctx context.Context, path string) (keyvalue.FileRecord, error) {
	verifSched("get")
	return c.s.Get(ctx, path)
}
func (c c15Store) Set(ctx context.Context, path string, src keyvalue.FileRecord) error {
	verifSched("set")
	return c.s.Set(ctx, path, src)
}
func (c c15Store) Transaction(o keyvalue.TransactionOptions) (keyvalue.Transaction, error) {
	verifSched("txn.begin")
	t, err := c.s.Transaction(o)
	return c15Txn{t}, err
}

type c15Txn struct{ t keyvalue.Transaction }

func (c c15Txn) Get(path string) keyvalue.OpID { verifSched("txn.get"); return c.t.Get(path) }
func (c c15Txn) GetHandler(path string, h keyvalue.OpHandler) keyvalue.OpID {
	verifSched("txn.get")
	return c.t.GetHandler(path, h)
}
func (c c15Txn) Set(path string, src keyvalue.FileRecord, contents blob.Blob) keyvalue.OpID {
	verifSched("txn.set")
	return c.t.Set(path, src, contents)
}
func (c c15Txn) SetHandler(path string, src keyvalue.FileRecord, contents blob.Blob, h keyvalue.OpHandler) keyvalue.OpID {
	verifSched("txn.set")
	return c.t.SetHandler(path, src, contents, h)
}
func (c c15Txn) Commit(ctx context.Context) ([]keyvalue.OpResult, error) {
	verifSched("txn.commit")
	return c.t.Commit(ctx)
}
func (c c15Txn) Abort() error { verifSched("txn.abort"); return c.t.Abort() }

func c15NewFS(points bool) *keyvalue.FS {
	var fs *keyvalue.FS
	var err error
	if points {
		fs, err = keyvalue.NewFS(c15Store{newStore()})
	} else {
		fs, err = keyvalue.NewFS(newStore())
	}
	verifAssert(err == nil, "NewFS failed")
	return fs
}

// primitive operations
var c15Prim = []string{"Mkdir(a)", "Mkdir(a/x)", "Remove(a)", "Write(b)", "Rename(b,c)", "Stat(b)", "Stat(c)", "Remove(b)", "Write(a/y)", "ReadFile(b)", "Rename(a,d)"}

// programs a goroutine may run (one operation, or two in program order)
var c15Progs = [][]int{{0}, {1}, {2}, {3}, {4}, {5, 6}, {7}, {8}, {9}, {10}, {6, 5}}

func c15ProgName(p []int) string {
	n := ""
	for i, o := range p {
		if i > 0 {
			n += ";"
		}
		n += c15Prim[o]
	}
	return n
}

// c15Do runs one primitive operation and returns a result code.
func c15Do(fs *keyvalue.FS, op int, val byte) int {
	code := func(err error) int {
		if err == nil {
			return 0
		}
		return 1
	}
	switch op {
	case 0:
		return code(fs.Mkdir("a", 0755))
	case 1:
		return code(fs.Mkdir("a/x", 0755))
	case 2:
		return code(fs.Remove("a"))
	case 3:
		return code(hackpadfs.WriteFullFile(fs, "b", []byte{val}, 0644))
	case 4:
		return code(fs.Rename("b", "c"))
	case 5:
		_, e := fs.Stat("b")
		return code(e)
	case 6:
		_, e := fs.Stat("c")
		return code(e)
	case 7:
		return code(fs.Remove("b"))
	case 8:
		return code(hackpadfs.WriteFullFile(fs, "a/y", []byte{val}, 0644))
	case 9:
		got, err := hackpadfs.ReadFile(fs, "b")
		if err != nil {
			return 1
		}
		if len(got) != 1 {
			return 2
		}
		return 10 + int(got[0])
	default:
		return code(fs.Rename("a", "d"))
	}
}

var c15Names = []string{"a", "a/x", "a/y", "b", "c", "d", "d/x", "d/y"}

// c15Observe: the final tree as a vector of codes.
func c15Observe(fs *keyvalue.FS) []int {
	out := make([]int, len(c15Names))
	for i, n := range c15Names {
		info, err := fs.Stat(n)
		switch {
		case err != nil:
			out[i] = 0
		case info.IsDir():
			out[i] = 1
		default:
			got, rerr := hackpadfs.ReadFile(fs, n)
			if rerr != nil || len(got) != 1 {
				out[i] = 2
			} else {
				out[i] = 10 + int(got[0])
			}
		}
	}
	return out
}

func c15Prepare(fs *keyvalue.FS, pre int) {
	// pre-states: bit0: directory a exists; bit1: file b exists
	if pre&1 != 0 {
		verifAssert(fs.Mkdir("a", 0755) == nil, "pre Mkdir a")
	}
	if pre&2 != 0 {
		verifAssert(hackpadfs.WriteFullFile(fs, "b", []byte{7}, 0644) == nil, "pre Write b")
	}
}

func c15Same(a, b []int) bool {
	for i := range a {
		if a[i] != b[i] {
			return false
		}
	}
	return true
}

// c15Merges: all interleavings of programs A and B that respect program order; each element says
// whose next operation runs (0 = A, 1 = B).
func c15Merges(na, nb int) [][]int {
	if na == 0 && nb == 0 {
		return [][]int{{}}
	}
	var out [][]int
	if na > 0 {
		for _, m := range c15Merges(na-1, nb) {
			out = append(out, append([]int{0}, m...))
		}
	}
	if nb > 0 {
		for _, m := range c15Merges(na, nb-1) {
			out = append(out, append([]int{1}, m...))
		}
	}
	return out
}

// VerifC15Lin: two goroutines running one program each, all interleavings at store-step granularity:
// the results and the final tree equal those of some sequential interleaving of the same operations
// (program order kept); no panic, no deadlock.
func VerifC15Lin() {
	pre := verifChoice("pre", 4)
	pa := verifChoice("progA", len(c15Progs))
	pb := verifChoice("progB", len(c15Progs))
	verifAssume(pa <= pb) // unordered pair
	A, B := c15Progs[pa], c15Progs[pb]
	verifTag("ops", c15ProgName(A)+" || "+c15ProgName(B))
	verifTag("pre", []string{"empty", "a", "b", "a+b"}[pre])
	// concurrently, with scheduling points at every store step
	fs := c15NewFS(true)
	c15Prepare(fs, pre)
	var wg sync.WaitGroup
	ra, rb := make([]int, len(A)), make([]int, len(B))
	wg.Add(2)
	go func() {
		defer wg.Done()
		verifGo(1)
		defer verifGoDone()
		for i, o := range A {
			ra[i] = c15Do(fs, o, 1)
		}
	}()
	go func() {
		defer wg.Done()
		verifGo(2)
		defer verifGoDone()
		for i, o := range B {
			rb[i] = c15Do(fs, o, 2)
		}
	}()
	wg.Wait()
	verifReach("both-returned")
	oc := c15Observe(fs)
	// every sequential interleaving on a fresh twin (real code, no scheduling points)
	lin := false
	for _, m := range c15Merges(len(A), len(B)) {
		tw := c15NewFS(false)
		c15Prepare(tw, pre)
		sa, sb := make([]int, len(A)), make([]int, len(B))
		ia, ib := 0, 0
		for _, who := range m {
			if who == 0 {
				sa[ia] = c15Do(tw, A[ia], 1)
				ia++
			} else {
				sb[ib] = c15Do(tw, B[ib], 2)
				ib++
			}
		}
		if c15Same(sa, ra) && c15Same(sb, rb) && c15Same(c15Observe(tw), oc) {
			lin = true
		}
	}
	verifAssert(lin, "results and final tree of the concurrent run equal no sequential order of the same operations")
}
