package mem

import (
	"io"
	"sync"

	"github.com/hack-pad/hackpadfs"
)

// handle-level programs on one file b ("0123456789"): each opens its own handle, does one call, closes
var c15BlobProgs = []string{"Truncate(5)", "Truncate(3)", "WriteAt(ab,8)", "Truncate(12)", "WriteAt(ab,2)", "ReadAt(4,0)"}

// c15BlobDo runs program p and returns an observation of its result (error class, count, bytes read).
func c15BlobDo(fs hackpadfs.FS, p int) int {
	f, err := hackpadfs.OpenFile(fs, "b", hackpadfs.FlagReadWrite, 0)
	if err != nil {
		return -1
	}
	defer func() { _ = f.Close() }()
	res := 0
	switch p {
	case 0:
		err = hackpadfs.TruncateFile(f, 5)
	case 1:
		err = hackpadfs.TruncateFile(f, 3)
	case 2:
		var n int
		n, err = hackpadfs.WriteAtFile(f, []byte("ab"), 8)
		res = n
	case 3:
		err = hackpadfs.TruncateFile(f, 12)
	case 4:
		var n int
		n, err = hackpadfs.WriteAtFile(f, []byte("ab"), 2)
		res = n
	default:
		buf := make([]byte, 4)
		var n int
		n, err = hackpadfs.ReadAtFile(f, buf, 0)
		res = n
		for i := 0; i < n; i++ {
			res = res*257 + int(buf[i])
		}
		if err == io.EOF {
			err = nil
			res += 1 << 40
		}
	}
	if err != nil {
		return -2 - res
	}
	return res
}

func c15BlobContent(fs hackpadfs.FS) []byte {
	got, err := hackpadfs.ReadFile(fs, "b")
	verifAssert(err == nil, "the file cannot be read after the two operations")
	return got
}

// VerifC15LinBlob: two goroutines, each running one handle-level operation on the same file, interleaved
// at every store step AND at every acquisition of the blob's mutex (interleavings inside one file
// operation): the results and the final contents equal those of one of the two sequential orders, and the
// file stays usable (no operation leaves the blob locked).
func VerifC15LinBlob() {
	pa := verifChoice("progA", len(c15BlobProgs))
	pb := verifChoice("progB", len(c15BlobProgs))
	verifAssume(pa <= pb)
	verifTag("ops", c15BlobProgs[pa]+" || "+c15BlobProgs[pb])
	fs := c15NewFS(true)
	verifAssert(hackpadfs.WriteFullFile(fs, "b", []byte("0123456789"), 0644) == nil, "WriteFullFile b")
	var wg sync.WaitGroup
	var ra, rb int
	wg.Add(2)
	go func() {
		defer wg.Done()
		verifGo(1)
		defer verifGoDone()
		ra = c15BlobDo(fs, pa)
	}()
	go func() {
		defer wg.Done()
		verifGo(2)
		defer verifGoDone()
		rb = c15BlobDo(fs, pb)
	}()
	wg.Wait()
	verifReach("both-returned")
	oc := c15BlobContent(fs)
	lin := false
	for order := 0; order < 2; order++ {
		tw := c15NewFS(false)
		verifAssert(hackpadfs.WriteFullFile(tw, "b", []byte("0123456789"), 0644) == nil, "WriteFullFile b")
		var sa, sb int
		if order == 0 {
			sa = c15BlobDo(tw, pa)
			sb = c15BlobDo(tw, pb)
		} else {
			sb = c15BlobDo(tw, pb)
			sa = c15BlobDo(tw, pa)
		}
		tc := c15BlobContent(tw)
		same := sa == ra && sb == rb && len(tc) == len(oc)
		if same {
			for i := range tc {
				if tc[i] != oc[i] {
					same = false
				}
			}
		}
		if same {
			lin = true
		}
	}
	verifAssert(lin, "results and final contents of the concurrent run equal neither sequential order of the two operations")
}
