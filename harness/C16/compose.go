package mount

import (
	"errors"
	"io"

	"github.com/hack-pad/hackpadfs"
	"github.com/hack-pad/hackpadfs/cache"
	"github.com/hack-pad/hackpadfs/mem"
)

var c16Names = []string{"a", "ab", "b", "a.b", "c", "ba"}

// c16Compose builds a directory with c children under the chosen composition and returns the FS
// to list through, the directory name in that FS, and which children are directories.
//   kind 0: Sub view of a mem.FS         kind 1: mount.FS whose directory children are mount points
//   kind 2: read-only cache over mem.FS   kind 3: directory below a mount point
func c16Compose() (hackpadfs.FS, string, int, []bool) {
	base, err := mem.NewFS()
	verifAssert(err == nil, "NewFS failed")
	kind := verifChoice("fskind", 5)
	prefix := "d"
	switch kind {
	case 0:
		verifTag("fs", "sub")
		verifAssert(base.Mkdir("p", 0755) == nil, "Mkdir p")
		prefix = "p/d"
	case 1:
		verifTag("fs", "mount")
	case 2:
		verifTag("fs", "cache")
	case 3:
		verifTag("fs", "below-mount")
	case 4:
		verifTag("fs", "sub-dot")
	}
	verifAssert(base.Mkdir(prefix, 0755) == nil, "Mkdir d")
	// siblings whose names extend the directory's name must never show up in its listing
	verifAssert(hackpadfs.WriteFullFile(base, prefix+"a", []byte{1}, 0644) == nil, "WriteFullFile da failed")
	verifAssert(base.Mkdir(prefix+".x", 0755) == nil, "Mkdir d.x failed")
	c := verifChoice("children", verifParam("N")+1)
	isDir := make([]bool, c)
	for i := 0; i < c; i++ {
		name := prefix + "/" + c16Names[i]
		if verifChoice(verifName("kind", i), 2) == 1 {
			isDir[i] = true
			verifAssert(base.Mkdir(name, 0700) == nil, "Mkdir child failed")
		} else {
			verifAssert(hackpadfs.WriteFullFile(base, name, []byte{byte(i)}, 0644) == nil, "WriteFullFile child failed")
		}
	}
	switch kind {
	case 0:
		sub, err := hackpadfs.Sub(base, "p")
		verifAssert(err == nil, "Sub failed")
		return sub, "d", c, isDir
	case 1:
		mfs, err := NewFS(base)
		verifAssert(err == nil, "mount.NewFS failed")
		for i := 0; i < c; i++ {
			if isDir[i] {
				other, err := mem.NewFS()
				verifAssert(err == nil, "NewFS failed")
				// content inside the mounted FS must not show up in the parent's listing
				verifAssert(other.Mkdir("inner", 0755) == nil, "Mkdir inner")
				verifAssert(mfs.AddMount("d/"+c16Names[i], other) == nil, "AddMount failed")
			}
		}
		return mfs, "d", c, isDir
	case 2:
		store, err := mem.NewFS()
		verifAssert(err == nil, "NewFS failed")
		cfs, err := cache.NewReadOnlyFS(base, store, cache.ReadOnlyOptions{})
		verifAssert(err == nil, "NewReadOnlyFS failed")
		return cfs, "d", c, isDir
	case 4:
		// the generic view whose base directory is the root itself
		sub, err := hackpadfs.Sub(base, ".")
		verifAssert(err == nil, "Sub(.) failed")
		return sub, "d", c, isDir
	default:
		root, err := mem.NewFS()
		verifAssert(err == nil, "NewFS failed")
		verifAssert(root.Mkdir("m", 0755) == nil, "Mkdir m")
		mfs, err := NewFS(root)
		verifAssert(err == nil, "mount.NewFS failed")
		verifAssert(mfs.AddMount("m", base) == nil, "AddMount failed")
		return mfs, "m/d", c, isDir
	}
}

func c16Index(name string, c int) int {
	for i := 0; i < c; i++ {
		if c16Names[i] == name {
			return i
		}
	}
	return -1
}

// VerifC16ComposePage: paging through a directory handle of a composed FS.
func VerifC16ComposePage() {
	fsys, dir, c, _ := c16Compose()
	f, err := fsys.Open(dir)
	verifAssert(err == nil, "Open(dir) failed")
	seen := make([]bool, c)
	nseen := 0
	K := verifParam("K")
	for call := 0; call < K; call++ {
		n := verifInt(verifName("n", call))
		if call > 0 {
			verifAssume(n > 0)
		}
		remaining := c - nseen
		if remaining == 0 {
			verifTag("remaining", "none")
		} else {
			verifTag("remaining", "some")
		}
		entries, err := hackpadfs.ReadDirFile(f, n)
		verifObserve("len", int64(len(entries)))
		verifObserveBool("eof", err == io.EOF)
		for _, e := range entries {
			i := c16Index(e.Name(), c)
			verifAssert(i >= 0, "page: entry that is not a child of the directory")
			verifAssert(!seen[i], "page: child returned twice across pages")
			seen[i] = true
			nseen++
		}
		if n <= 0 {
			verifReach("nonpositive-fresh")
			verifAssert(err == nil, "page: n<=0 on a fresh handle must return a nil error")
			verifAssert(len(entries) == c, "page: n<=0 on a fresh handle must return every entry")
			// ... and consumes the listing: a positive count afterwards finds nothing left (os.File does the same)
			more, merr := hackpadfs.ReadDirFile(f, 1)
			verifAssert(len(more) == 0 && merr == io.EOF, "page: after n<=0 returned every entry a positive count must report io.EOF")
			return
		}
		verifAssert(int64(len(entries)) <= int64(n), "page: more than n entries")
		if remaining == 0 {
			verifReach("at-end")
			verifAssert(len(entries) == 0, "page: entries returned although none remain")
			verifAssert(err == io.EOF, "page: n>0 with nothing remaining must return io.EOF")
			continue
		}
		verifReach("mid")
		verifAssert(err == nil, "page: entries remain but an error was returned")
		want := remaining
		if int64(n) < int64(want) {
			want = n
		}
		verifAssert(len(entries) == want, "page: page size differs from min(n, remaining)")
	}
}

// VerifC16ComposeList: listing by name through a composed FS.
func VerifC16ComposeList() {
	fsys, dir, c, isDir := c16Compose()
	entries, err := hackpadfs.ReadDir(fsys, dir)
	verifAssert(err == nil, "ReadDir(dir) failed")
	verifAssert(len(entries) == c, "list: number of entries differs from number of children")
	seen := make([]bool, c)
	for k, e := range entries {
		i := c16Index(e.Name(), c)
		verifAssert(i >= 0, "list: entry that is not a child")
		verifAssert(!seen[i], "list: child listed twice")
		seen[i] = true
		if k > 0 {
			verifAssert(entries[k-1].Name() < e.Name(), "list: not sorted by name")
		}
		verifAssert(e.IsDir() == isDir[i], "list: IsDir differs from what was created")
		verifAssert(e.Type().IsDir() == isDir[i], "list: Type differs from what was created")
		info, err := hackpadfs.Stat(fsys, dir+"/"+e.Name())
		verifAssert(err == nil, "list: Stat of a listed child failed")
		verifAssert(info.IsDir() == isDir[i], "list: Stat kind differs from listing")
		einfo, err := e.Info()
		verifAssert(err == nil, "list: Info failed")
		verifAssert(einfo.Name() == e.Name(), "list: Info().Name differs from entry name")
		verifAssert(einfo.IsDir() == isDir[i], "list: Info().IsDir differs")
	}
	verifReach("listed")
	if c > 0 && !isDir[0] {
		_, err := hackpadfs.ReadDir(fsys, dir+"/"+c16Names[0])
		verifAssert(err != nil, "list: listing a regular file succeeded")
		verifAssert(errors.Is(err, hackpadfs.ErrNotDir), "list: listing a regular file must fail with ErrNotDir")
		verifReach("notdir")
	}
}

// VerifC16CrossDir: base names that occur in two directories with different kinds (x is a directory in the
// root and a file in sub; sub is a directory in the root and a file in x): after every directory has been
// listed (by name and through a handle, in a chosen order), every listed entry's kind still agrees with Stat
// of its full path, and listing again gives the same answer - whatever a layer remembers must be keyed by the
// full path.
func VerifC16CrossDir() {
	base, err := mem.NewFS()
	verifAssert(err == nil, "NewFS failed")
	verifAssert(base.Mkdir("x", 0755) == nil, "Mkdir x")
	verifAssert(base.Mkdir("sub", 0755) == nil, "Mkdir sub")
	verifAssert(hackpadfs.WriteFullFile(base, "sub/x", []byte{1}, 0644) == nil, "WriteFullFile sub/x")
	verifAssert(hackpadfs.WriteFullFile(base, "x/sub", []byte{2}, 0644) == nil, "WriteFullFile x/sub")
	var fsys hackpadfs.FS = base
	switch verifChoice("fskind", 3) {
	case 1:
		verifTag("fs", "cache")
		store, err := mem.NewFS()
		verifAssert(err == nil, "NewFS failed")
		cfs, err := cache.NewReadOnlyFS(base, store, cache.ReadOnlyOptions{})
		verifAssert(err == nil, "NewReadOnlyFS failed")
		fsys = cfs
	case 2:
		verifTag("fs", "mount")
		mfs, err := NewFS(base)
		verifAssert(err == nil, "mount.NewFS failed")
		fsys = mfs
	default:
		verifTag("fs", "mem")
	}
	dirs := []string{".", "sub", "x"}
	want := map[string]bool{"x": true, "sub": true, "sub/x": false, "x/sub": false}
	if verifChoice("open-nested-first", 2) == 1 {
		// a nested file is opened (and so cached, its directory created in the cache store) before anything is listed
		verifTag("history", "nested file opened first")
		nf, oerr := fsys.Open("sub/x")
		verifAssert(oerr == nil, "Open(sub/x) failed")
		_, _ = nf.Read(make([]byte, 1))
		_ = nf.Close()
	}
	// list every directory once, in a chosen order
	order := [][]int{{0, 1, 2}, {0, 2, 1}, {1, 0, 2}, {2, 1, 0}}[verifChoice("order", 4)]
	for _, di := range order {
		d := dirs[di]
		if verifChoice(verifName("how", di), 2) == 0 {
			_, err := hackpadfs.ReadDir(fsys, d)
			verifAssert(err == nil, "ReadDir failed")
		} else {
			f, err := fsys.Open(d)
			verifAssert(err == nil, "Open(dir) failed")
			_, err = hackpadfs.ReadDirFile(f, -1)
			verifAssert(err == nil, "ReadDirFile failed")
			_ = f.Close()
		}
	}
	verifReach("all-listed")
	for _, d := range dirs {
		entries, err := hackpadfs.ReadDir(fsys, d)
		verifAssert(err == nil, "a directory cannot be listed after the others were")
		for _, e := range entries {
			full := e.Name()
			if d != "." {
				full = d + "/" + e.Name()
			}
			isDir, known := want[full]
			verifAssert(known, "a listing contains an entry that was never created")
			verifAssert(e.IsDir() == isDir, "the kind in a listing differs from what was created")
			info, err := hackpadfs.Stat(fsys, full)
			verifAssert(err == nil, "Stat of a listed entry failed")
			verifAssert(info.IsDir() == isDir, "Stat disagrees with the listing about an entry's kind")
			// mode and size are the underlying file system's, whatever a layer has created for itself meanwhile
			truth, terr := hackpadfs.Stat(base, full)
			verifAssert(terr == nil, "Stat on the underlying file system failed")
			verifAssert(info.Mode() == truth.Mode(), "Stat through the layer reports another mode than the underlying file system")
			einfo, eerr := e.Info()
			verifAssert(eerr == nil && einfo.Mode() == truth.Mode(), "a listed entry's Info reports another mode than the underlying file system")
		}
	}
}
