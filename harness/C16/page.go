package mem

import (
	"context"
	"errors"
	"io"

	"github.com/hack-pad/hackpadfs"
	"github.com/hack-pad/hackpadfs/keyvalue"
)

// c16Plain hides the in-memory store's Transaction method, so keyvalue.FS takes the serial
// fallback transaction used for plain stores.
type c16Plain struct {
	s *store
	// the Get call with this running index fails once (-1: never)
	failGet, gets int
}

var c16ErrStore = errors.New("injected store failure")

func (p *c16Plain) Get(ctx context.Context, path string) (keyvalue.FileRecord, error) {
	i := p.gets
	p.gets++
	if i == p.failGet {
		return nil, c16ErrStore
	}
	return p.s.Get(ctx, path)
}
func (p *c16Plain) Set(ctx context.Context, path string, src keyvalue.FileRecord) error {
	return p.s.Set(ctx, path, src)
}

type c16FS interface {
	hackpadfs.FS
	hackpadfs.MkdirFS
	hackpadfs.OpenFileFS
	hackpadfs.StatFS
}

func c16NewFS() c16FS {
	if verifChoice("store", 2) == 1 {
		verifTag("store", "plain")
		c16LastPlain = &c16Plain{s: newStore(), failGet: -1}
		fs, err := keyvalue.NewFS(c16LastPlain)
		verifAssert(err == nil, "keyvalue.NewFS(plain store) failed")
		return fs
	}
	verifTag("store", "mem")
	fs, err := NewFS()
	verifAssert(err == nil, "NewFS failed")
	return fs
}

var c16LastPlain *c16Plain

// names include string-prefix pairs (a / ab / a.b) on purpose.
var c16Names = []string{"a", "ab", "b", "a.b", "c", "ba"}

// c16Dir builds directory "d" with c children (c chosen, 0..N); child i is a dir when kind bit i is set.
func c16Dir() (c16FS, int, []bool) {
	fs := c16NewFS()
	verifAssert(fs.Mkdir("d", 0755) == nil, "Mkdir d failed")
	// siblings whose names extend the directory's name must never show up in its listing
	verifAssert(hackpadfs.WriteFullFile(fs, "da", []byte{1}, 0644) == nil, "WriteFullFile da failed")
	verifAssert(fs.Mkdir("d.x", 0755) == nil, "Mkdir d.x failed")
	verifAssert(hackpadfs.WriteFullFile(fs, "d.x/q", []byte{2}, 0644) == nil, "WriteFullFile d.x/q failed")
	c := verifChoice("children", verifParam("N")+1)
	isDir := make([]bool, c)
	for i := 0; i < c; i++ {
		name := "d/" + c16Names[i]
		if verifParam("KINDS") != 0 && verifChoice(verifName("kind", i), 2) == 1 {
			isDir[i] = true
			verifAssert(fs.Mkdir(name, hackpadfs.FileMode(verifUint32(verifName("perm", i)))) == nil, "Mkdir child failed")
		} else {
			verifAssert(hackpadfs.WriteFullFile(fs, name, verifBytes(verifName("data", i), 1), hackpadfs.FileMode(verifUint32(verifName("perm", i)))) == nil, "WriteFullFile child failed")
		}
	}
	return fs, c, isDir
}

func c16Index(name string, c int) int {
	for i := 0; i < c; i++ {
		if c16Names[i] == name {
			return i
		}
	}
	return -1
}

// VerifC16Page: a fresh directory handle read in pages of symbolic sizes.
func VerifC16Page() {
	fs, c, _ := c16Dir()
	f, err := fs.Open("d")
	verifAssert(err == nil, "Open(d) failed")
	if c < len(c16Names) && verifChoice("late-child", 2) == 1 {
		// a child created after the handle was opened but before its first read is listed (the handle reads the
		// directory when it is first asked, like os.File)
		verifTag("late-child", "yes")
		verifAssert(hackpadfs.WriteFullFile(fs, "d/"+c16Names[c], []byte{9}, 0644) == nil, "WriteFullFile late child")
		c++
	}
	seen := make([]bool, c)
	nseen := 0
	K := verifParam("K")
	for call := 0; call < K; call++ {
		n := verifInt(verifName("n", call))
		if call > 0 {
			verifAssume(n > 0) // non-positive counts are only specified for a fresh handle
		}
		if n > 0 {
			verifTag(verifName("n", call), "positive")
		} else {
			verifTag(verifName("n", call), "nonpositive")
		}
		remaining := c - nseen
		if remaining == 0 {
			verifTag("remaining", "none")
		} else {
			verifTag("remaining", "some")
		}
		entries, err := hackpadfs.ReadDirFile(f, n)
		verifObserve("len", int64(len(entries)))
		verifObserveBool("eof", err == io.EOF)
		for _, e := range entries {
			i := c16Index(e.Name(), c)
			verifAssert(i >= 0, "page: entry that is not a child of the directory")
			verifAssert(!seen[i], "page: child returned twice across pages")
			seen[i] = true
			nseen++
		}
		if n <= 0 {
			verifReach("nonpositive-fresh")
			verifAssert(err == nil, "page: n<=0 on a fresh handle must return a nil error")
			verifAssert(len(entries) == c, "page: n<=0 on a fresh handle must return every entry")
			// ... and consumes the listing: a positive count afterwards finds nothing left (os.File does the same)
			more, merr := hackpadfs.ReadDirFile(f, 1)
			verifAssert(len(more) == 0 && merr == io.EOF, "page: after n<=0 returned every entry a positive count must report io.EOF")
			return
		}
		verifAssert(int64(len(entries)) <= int64(n), "page: more than n entries")
		if remaining == 0 {
			verifReach("at-end")
			verifAssert(len(entries) == 0, "page: entries returned although none remain")
			verifAssert(err == io.EOF, "page: n>0 with nothing remaining must return io.EOF")
			continue
		}
		verifReach("mid")
		verifAssert(err == nil, "page: entries remain but an error was returned")
		want := remaining
		if int64(n) < int64(want) {
			want = n
		}
		verifAssert(len(entries) == want, "page: page size differs from min(n, remaining)")
	}
}

// VerifC16List: listing by name: complete, duplicate-free, sorted, consistent with Stat.
func VerifC16List() {
	fs, c, isDir := c16Dir()
	if c > 0 {
		// a child may carry set-uid / set-gid / sticky bits: they are not part of an entry's kind
		_ = hackpadfs.Chmod(fs, "d/"+c16Names[0], hackpadfs.FileMode(verifUint32("special")))
	}
	entries, err := hackpadfs.ReadDir(fs, "d")
	verifAssert(err == nil, "ReadDir(d) failed")
	verifAssert(len(entries) == c, "list: number of entries differs from number of children")
	seen := make([]bool, c)
	for k, e := range entries {
		i := c16Index(e.Name(), c)
		verifAssert(i >= 0, "list: entry that is not a child")
		verifAssert(!seen[i], "list: child listed twice")
		seen[i] = true
		if k > 0 {
			verifAssert(entries[k-1].Name() < e.Name(), "list: not sorted by name")
		}
		verifAssert(e.IsDir() == isDir[i], "list: IsDir differs from what was created")
		info, err := hackpadfs.Stat(fs, "d/"+e.Name())
		verifAssert(err == nil, "list: Stat of a listed child failed")
		verifAssert(e.Type() == info.Mode().Type(), "list: Type differs from Stat")
		einfo, err := e.Info()
		verifAssert(err == nil, "list: Info failed")
		verifAssert(einfo.Name() == info.Name() && einfo.Mode() == info.Mode() && einfo.Size() == info.Size() && einfo.IsDir() == info.IsDir(), "list: Info differs from Stat")
	}
	verifReach("listed")
	// listing a non-directory
	if c > 0 && !isDir[0] {
		_, err := hackpadfs.ReadDir(fs, "d/"+c16Names[0])
		verifAssert(err != nil, "list: listing a regular file succeeded")
		verifAssert(errors.Is(err, hackpadfs.ErrNotDir), "list: listing a regular file must fail with ErrNotDir")
		verifReach("notdir")
	}
}

// VerifC16PageFaults: a look-up of the plain store fails once while a page is being assembled: that ReadDir
// call returns an error, and the children of the failed page are not lost - paging on (without faults) still
// yields every child exactly once before io.EOF.
func VerifC16PageFaults() {
	fs, c, _ := c16Dir()
	verifAssume(c16LastPlain != nil && c >= 2)
	f, err := fs.Open("d")
	verifAssert(err == nil, "Open(d) failed")
	seen := make([]bool, c)
	fault := verifInt("fault")
	verifAssume(fault >= 0)
	verifAssume(fault <= 6)
	c16LastPlain.gets, c16LastPlain.failGet = 0, fault
	n := 1 + verifChoice("page", 2)
	fired := false
	for call := 0; call < 2*c+3; call++ {
		entries, rerr := hackpadfs.ReadDirFile(f, n)
		if c16LastPlain.gets > c16LastPlain.failGet && c16LastPlain.failGet >= 0 {
			fired = true
			c16LastPlain.failGet = -1
		}
		for _, e := range entries {
			i := c16Index(e.Name(), c)
			verifAssert(i >= 0, "page: entry that is not a child of the directory")
			verifAssert(!seen[i], "page: child returned twice across pages")
			seen[i] = true
		}
		if rerr == io.EOF {
			break
		}
	}
	verifReach("paged")
	if fired {
		verifReach("fault-fired")
	}
	for i := 0; i < c; i++ {
		verifAssert(seen[i], "a child was never returned: the page whose look-up failed was skipped")
	}
}
