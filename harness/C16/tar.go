package tar

import (
	"context"

	"github.com/hack-pad/hackpadfs"
)

// VerifC16Tar: after unpacking, listing a directory of the tar FS by name returns each child once,
// sorted, with kinds agreeing with Stat; paging through a handle reaches io.EOF.
func VerifC16Tar() {
	names := []string{"d/b", "d/a", "d/ab", "d/c/x"}
	n := 1 + verifChoice("entries", len(names))
	for i := 0; i < n; i++ {
		verifTarAdd(names[i], int('0'), 0644, 1, i)
	}
	tfs, err := NewReaderFS(context.Background(), verifTarReader(-1, -1), ReaderFSOptions{})
	verifAssert(err == nil, "NewReaderFS")
	<-tfs.Done()
	verifAssert(tfs.UnarchiveErr() == nil, "unpacking failed")
	entries, err := hackpadfs.ReadDir(tfs, "d")
	verifAssert(err == nil, "ReadDir(d)")
	want := []string{"b"}
	switch n {
	case 2:
		want = []string{"a", "b"}
	case 3:
		want = []string{"a", "ab", "b"}
	case 4:
		want = []string{"a", "ab", "b", "c"}
	}
	verifAssert(len(entries) == len(want), "listing is incomplete or has duplicates")
	for i := range want {
		verifAssert(entries[i].Name() == want[i], "listing is not sorted / complete")
		info, serr := hackpadfs.Stat(tfs, "d/"+want[i])
		verifAssert(serr == nil && info.IsDir() == entries[i].IsDir(), "kind differs from Stat")
	}
	f, err := tfs.Open("d")
	verifAssert(err == nil, "Open(d)")
	page := verifInt("n")
	verifAssume(page >= 1)
	got := 0
	for i := 0; i < 6; i++ {
		es, rerr := hackpadfs.ReadDirFile(f, page)
		got += len(es)
		if rerr != nil {
			verifAssert(len(es) == 0, "entries together with an error")
			break
		}
		verifAssert(len(es) > 0, "an empty page with a nil error")
	}
	verifReach("paged")
	verifAssert(got == len(want), "paging did not yield every child exactly once")
}
