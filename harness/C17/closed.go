package mount

import (
	"errors"
	"io"
	"time"

	"github.com/hack-pad/hackpadfs"
	"github.com/hack-pad/hackpadfs/cache"
	"github.com/hack-pad/hackpadfs/keyvalue"
	"github.com/hack-pad/hackpadfs/mem"
)

var c17Kinds = []string{"kv-read-only", "kv-write-only", "kv-read-write", "kv-directory", "cache-directory", "cache-file", "kv-read-write-append", "kv-write-only-append"}

func c17Open() (hackpadfs.File, int) {
	fs, err := mem.NewFS()
	verifAssert(err == nil, "NewFS failed")
	verifAssert(fs.Mkdir("d", 0755) == nil, "Mkdir failed")
	verifAssert(hackpadfs.WriteFullFile(fs, "d/f", verifBytes("data", 2), 0644) == nil, "WriteFullFile failed")
	kind := verifChoice("kind", len(c17Kinds))
	verifTag("handle", c17Kinds[kind])
	var f hackpadfs.File
	switch kind {
	case 0:
		f, err = fs.OpenFile("d/f", hackpadfs.FlagReadOnly, 0)
	case 1:
		f, err = fs.OpenFile("d/f", hackpadfs.FlagWriteOnly, 0)
	case 2:
		f, err = fs.OpenFile("d/f", hackpadfs.FlagReadWrite, 0)
	case 3:
		f, err = fs.Open("d")
	case 6:
		f, err = fs.OpenFile("d/f", hackpadfs.FlagReadWrite|hackpadfs.FlagAppend, 0)
	case 7:
		f, err = fs.OpenFile("d/f", hackpadfs.FlagWriteOnly|hackpadfs.FlagAppend, 0)
	default:
		store, err2 := mem.NewFS()
		verifAssert(err2 == nil, "NewFS failed")
		cfs, err2 := cache.NewReadOnlyFS(fs, store, cache.ReadOnlyOptions{})
		verifAssert(err2 == nil, "NewReadOnlyFS failed")
		if kind == 4 {
			f, err = cfs.Open("d")
		} else {
			f, err = cfs.Open("d/f")
		}
	}
	verifAssert(err == nil && f != nil, "open failed")
	return f, kind
}

var c17Calls = []string{"Read", "ReadAt", "Write", "WriteAt", "Seek", "Stat", "ReadDir", "Truncate", "Chmod", "Sync", "Close", "Chtimes"}

// c17Call performs call c with symbolic arguments and returns its error.
func c17Call(f hackpadfs.File, id string, c int) error {
	switch c {
	case 0:
		n := verifInt(id + ".n")
		verifAssume(n >= 0)
		verifAssume(n <= 2)
		_, err := f.Read(make([]byte, n))
		return err
	case 1:
		_, err := hackpadfs.ReadAtFile(f, make([]byte, verifChoice(id+".len", 2)), verifInt64(id+".off"))
		return err
	case 2:
		// zero-length writes included: os.File refuses them on a closed file as well
		_, err := hackpadfs.WriteFile(f, verifBytes(id+".p", verifChoice(id+".len", 2)))
		return err
	case 3:
		off := verifInt64(id + ".off")
		verifAssume(off <= 4)
		_, err := hackpadfs.WriteAtFile(f, verifBytes(id+".p", verifChoice(id+".len", 2)), off)
		return err
	case 4:
		off := verifInt64(id + ".off")
		verifAssume(off >= -8)
		verifAssume(off <= 8)
		// any whence value, valid or not (os.File reports ErrClosed before it looks at whence)
		_, err := hackpadfs.SeekFile(f, off, verifInt(id+".whence"))
		return err
	case 5:
		_, err := f.Stat()
		return err
	case 6:
		_, err := hackpadfs.ReadDirFile(f, verifInt(id+".n"))
		return err
	case 7:
		sz := verifInt64(id + ".size")
		verifAssume(sz <= 4)
		return hackpadfs.TruncateFile(f, sz)
	case 8:
		return hackpadfs.ChmodFile(f, hackpadfs.FileMode(verifUint32(id+".mode")))
	case 9:
		return hackpadfs.SyncFile(f)
	case 10:
		return f.Close()
	default:
		return hackpadfs.ChtimesFile(f, time.Unix(1, 0), time.Unix(2, 0))
	}
}

// VerifC17Closed: after Close every call fails with an error matching ErrClosed and never panics.
// (A panic is reported by the engine itself as a failure of this harness.)
func VerifC17Closed() {
	f, kind := c17Open()
	// the handle may have been used before it was closed (results a handle memoises must not outlive Close)
	switch verifChoice("used-before-close", 4) {
	case 1:
		verifTag("before-close", "Stat")
		_, _ = f.Stat()
	case 2:
		verifTag("before-close", "Read")
		_, _ = f.Read(make([]byte, 1))
	case 3:
		verifTag("before-close", "Seek+ReadDir")
		_, _ = hackpadfs.SeekFile(f, 1, io.SeekStart)
		_, _ = hackpadfs.ReadDirFile(f, 1)
	}
	verifAssert(f.Close() == nil, "first Close failed")
	K := verifParam("K")
	for i := 0; i < K; i++ {
		id := verifName("c", i)
		c := verifChoice(id+".call", len(c17Calls))
		verifTag("call", c17Calls[c])
		err := c17Call(f, id, c)
		verifReach("post-close-call")
		verifAssert(err != nil, "a call on a closed handle succeeded")
		if kind == 4 && (c == 5 || c == 6 || c == 10) {
			// cache.dir is stateless apart from its paging offset: Stat/ReadDir/Close after Close are
			// delegated to the source; os.File would report ErrClosed
			verifTag("situation", "stateless cache dir handle")
		}
		verifAssert(errors.Is(err, hackpadfs.ErrClosed), "the error of a call on a closed handle must match ErrClosed (os.File's does)")
	}
}

// VerifC17Indep: closing, seeking, reading or writing through one handle never changes another
// handle's position or validity.
func VerifC17Indep() {
	fs, err := mem.NewFS()
	verifAssert(err == nil, "NewFS failed")
	verifAssert(hackpadfs.WriteFullFile(fs, "f", verifBytes("data", 3), 0644) == nil, "WriteFullFile failed")
	h1, err := fs.OpenFile("f", hackpadfs.FlagReadWrite, 0)
	verifAssert(err == nil, "open h1")
	h2, err := fs.OpenFile("f", hackpadfs.FlagReadWrite, 0)
	verifAssert(err == nil, "open h2")
	pre := verifInt64("pre")
	verifAssume(pre >= 0)
	verifAssume(pre <= 3)
	pos, err := hackpadfs.SeekFile(h2, pre, io.SeekStart)
	verifAssert(err == nil && pos == pre, "seek h2")
	c := verifChoice("call", len(c17Calls))
	verifTag("call", c17Calls[c])
	if c == 7 || c == 2 || c == 3 {
		verifTag("changes-size", "maybe")
	}
	_ = c17Call(h1, "c", c)
	pos, err = hackpadfs.SeekFile(h2, 0, io.SeekCurrent)
	verifAssert(err == nil, "the other handle became invalid")
	verifAssert(pos == pre, "the other handle's position changed")
	_, err = h2.Stat()
	verifAssert(err == nil, "Stat on the other handle failed")
	verifAssert(h2.Close() == nil, "Close of the other handle failed")
	verifReach("indep-done")
}

var c17Mutations = []string{"write-nonempty", "write-empty", "writeat-nonempty", "truncate-resize", "truncate-same-size", "chmod", "read", "seek", "close", "chtimes"}

// VerifC17Unlink: after Remove or Rename of a path, I/O through a handle opened before never makes the
// old name exist again.
func VerifC17Unlink() {
	fs, err := mem.NewFS()
	verifAssert(err == nil, "NewFS failed")
	verifAssert(hackpadfs.WriteFullFile(fs, "f", verifBytes("data", 2), 0644) == nil, "WriteFullFile failed")
	flags := []int{hackpadfs.FlagReadWrite, hackpadfs.FlagWriteOnly, hackpadfs.FlagReadWrite | hackpadfs.FlagAppend}
	h, err := fs.OpenFile("f", flags[verifChoice("flags", len(flags))], 0)
	verifAssert(err == nil, "open")
	if verifChoice("prime", 2) == 1 {
		_, _ = h.Read(make([]byte, 1))
	}
	if verifChoice("unlink", 2) == 0 {
		verifTag("unlink", "remove")
		verifAssert(fs.Remove("f") == nil, "Remove failed")
	} else {
		verifTag("unlink", "rename")
		verifAssert(fs.Rename("f", "g") == nil, "Rename failed")
	}
	_, err = fs.Stat("f")
	verifAssert(errors.Is(err, hackpadfs.ErrNotExist), "the old name still exists right after Remove/Rename")
	m := verifChoice("mutation", len(c17Mutations))
	verifTag("io", c17Mutations[m])
	switch m {
	case 0:
		_, _ = hackpadfs.WriteFile(h, verifBytes("p", 1))
	case 1:
		_, _ = hackpadfs.WriteFile(h, nil)
	case 2:
		off := verifInt64("off")
		verifAssume(off >= 0)
		verifAssume(off <= 3)
		_, _ = hackpadfs.WriteAtFile(h, verifBytes("p", 1), off)
	case 3:
		sz := verifInt64("size")
		verifAssume(sz >= 0)
		verifAssume(sz <= 4)
		verifAssume(sz != 2)
		_ = hackpadfs.TruncateFile(h, sz)
	case 4:
		_ = hackpadfs.TruncateFile(h, 2)
	case 5:
		_ = hackpadfs.ChmodFile(h, hackpadfs.FileMode(verifUint32("mode")))
	case 6:
		_, _ = h.Read(make([]byte, 2))
	case 7:
		_, _ = hackpadfs.SeekFile(h, 1, io.SeekStart)
	case 8:
		_ = h.Close()
	case 9:
		_ = hackpadfs.ChtimesFile(h, time.Unix(1, 0), time.Unix(2, 0))
	}
	verifReach("after-io")
	_, err = fs.Stat("f")
	verifAssert(err != nil && errors.Is(err, hackpadfs.ErrNotExist), "I/O through a handle opened before Remove/Rename made the old name exist again")
}

// c17NoSeekFS: a source file system whose files offer no Seek (so the cache cannot rewind the handle it
// copied from and has to re-open the file from its store).
type c17NoSeekFS struct{ fs *mem.FS }

type c17NoSeekFile struct{ f hackpadfs.File }

func (n c17NoSeekFile) Stat() (hackpadfs.FileInfo, error) { return n.f.Stat() }
func (n c17NoSeekFile) Read(p []byte) (int, error)        { return n.f.Read(p) }
func (n c17NoSeekFile) Close() error                      { return n.f.Close() }
func (n c17NoSeekFile) ReadDir(k int) ([]hackpadfs.DirEntry, error) {
	return hackpadfs.ReadDirFile(n.f, k)
}

func (s c17NoSeekFS) Open(name string) (hackpadfs.File, error) {
	f, err := s.fs.Open(name)
	if err != nil {
		return nil, err
	}
	return c17NoSeekFile{f}, nil
}

// VerifC17CacheHandle: the handle the cache returns from the first Open of a file (the one that fills the
// cache) is a valid, open handle - also when the source's files cannot seek - and stays valid while other
// handles of the same file are opened and closed.
func VerifC17CacheHandle() {
	src, err := mem.NewFS()
	verifAssert(err == nil, "NewFS failed")
	data := verifBytes("data", 2)
	verifAssert(hackpadfs.WriteFullFile(src, "f", data, 0644) == nil, "WriteFullFile failed")
	store, err := mem.NewFS()
	verifAssert(err == nil, "NewFS failed")
	var source hackpadfs.FS = src
	if verifChoice("source-seekable", 2) == 0 {
		source = c17NoSeekFS{src}
		verifTag("source", "files without Seek")
	}
	cfs, err := cache.NewReadOnlyFS(source, store, cache.ReadOnlyOptions{})
	verifAssert(err == nil, "NewReadOnlyFS failed")
	f, err := cfs.Open("f")
	verifAssert(err == nil, "first Open failed")
	if verifChoice("other-handle", 2) == 1 {
		g, err := cfs.Open("f")
		verifAssert(err == nil, "second Open failed")
		verifAssert(g.Close() == nil, "Close of the second handle failed")
	}
	verifReach("opened")
	buf := make([]byte, 2)
	n, err := f.Read(buf)
	verifAssert(n == 2 && (err == nil || err == io.EOF) && buf[0] == data[0] && buf[1] == data[1], "the handle returned by the first Open cannot be read (closed or empty)")
	_, err = f.Stat()
	verifAssert(err == nil, "Stat on the handle returned by the first Open failed")
	verifAssert(f.Close() == nil, "Close of the handle returned by the first Open failed")
}

// VerifC17ClosedFailing: a handle of a keyvalue.FS whose store goes down (every call fails from some point
// on, possibly while the handle still has something the store rejected): Close releases the handle whatever
// it returns - like os.File, whose descriptor is gone also when close(2) reports an error - so every later
// call fails with an error matching ErrClosed.
func VerifC17ClosedFailing() {
	store := pNewStore()
	fs, err := keyvalue.NewFS(store)
	verifAssert(err == nil, "keyvalue.NewFS failed")
	verifAssert(hackpadfs.WriteFullFile(fs, "f", verifBytes("data", 2), 0644) == nil, "WriteFullFile failed")
	f, err := fs.OpenFile("f", hackpadfs.FlagReadWrite, 0)
	verifAssert(err == nil, "OpenFile failed")
	if verifChoice("outage", 2) == 1 {
		verifTag("outage", "before the last write")
		store.failing = true
	}
	switch verifChoice("before-close", 4) {
	case 1:
		verifTag("before-close", "Write")
		_, _ = hackpadfs.WriteFile(f, []byte{7, 7, 7})
	case 2:
		verifTag("before-close", "Truncate")
		_ = hackpadfs.TruncateFile(f, 1)
	case 3:
		verifTag("before-close", "Chmod")
		_ = hackpadfs.ChmodFile(f, 0600)
	}
	store.failing = true
	_ = f.Close() // may report the store's refusal; the handle is released all the same
	verifReach("closed")
	K := verifParam("K")
	for i := 0; i < K; i++ {
		id := verifName("c", i)
		c := verifChoice(id+".call", len(c17Calls))
		verifTag("call", c17Calls[c])
		err := c17Call(f, id, c)
		verifReach("post-close-call")
		verifAssert(err != nil, "a call on a closed handle succeeded")
		verifAssert(errors.Is(err, hackpadfs.ErrClosed), "the error of a call on a closed handle must match ErrClosed (os.File's does)")
	}
}
