package os

import (
	"errors"
	goos "os"

	"github.com/hack-pad/hackpadfs"
)

var c17OSCalls = []string{"Read", "ReadAt", "Write", "WriteAt", "Seek", "Stat", "ReadDir", "Truncate", "Chmod", "Sync", "Close"}

// VerifC17OSClosed: os.FS handles: after Close every call fails with an error matching ErrClosed
// (the wrapper must pass os.File's closed-state handling through). Symbolically the OS is the contract
// stub (a closed *os.File answers ErrClosed, a nil one ErrInvalid); natively it is the real os package.
func VerifC17OSClosed() {
	dir, err := goos.MkdirTemp("", "verif-c17-")
	if err != nil {
		panic(err)
	}
	if !verifSymbolic() {
		defer goos.RemoveAll(dir)
		if err := goos.Mkdir(dir+"/d", 0700); err != nil {
			panic(err)
		}
	}
	sub, err := NewFS().Sub(dir[1:])
	verifAssert(err == nil, "Sub failed")
	fs := sub.(*FS)
	var f hackpadfs.File
	if verifChoice("kind", 2) == 0 {
		verifTag("handle", "file")
		f, err = fs.OpenFile("f", hackpadfs.FlagReadWrite|hackpadfs.FlagCreate, 0600)
	} else {
		verifTag("handle", "directory")
		f, err = fs.Open("d")
	}
	verifAssert(err == nil, "open failed")
	verifAssert(f.Close() == nil, "first Close failed")
	K := verifParam("K")
	for i := 0; i < K; i++ {
		c := verifChoice(verifName("call", i), len(c17OSCalls))
		verifTag("call", c17OSCalls[c])
		var err error
		switch c {
		case 0:
			_, err = f.Read(make([]byte, 1))
		case 1:
			_, err = hackpadfs.ReadAtFile(f, make([]byte, 1), 0)
		case 2:
			_, err = hackpadfs.WriteFile(f, []byte{1})
		case 3:
			_, err = hackpadfs.WriteAtFile(f, []byte{1}, 0)
		case 4:
			_, err = hackpadfs.SeekFile(f, 0, 0)
		case 5:
			_, err = f.Stat()
		case 6:
			_, err = hackpadfs.ReadDirFile(f, 1)
		case 7:
			err = hackpadfs.TruncateFile(f, 0)
		case 8:
			err = hackpadfs.ChmodFile(f, 0600)
		case 9:
			err = hackpadfs.SyncFile(f)
		case 10:
			err = f.Close()
		}
		verifReach("post-close-call")
		verifAssert(err != nil, "a call on a closed os.FS handle succeeded")
		if c != 6 { // os.File.ReadDir on a closed file reports "use of closed file", which does not match ErrClosed
			verifAssert(errors.Is(err, hackpadfs.ErrClosed), "the error of a call on a closed os.FS handle must match ErrClosed (os.File's does)")
		}
	}
}
