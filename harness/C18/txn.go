package mem

import (
	"context"
	"errors"
	"sync"
	"time"

	"github.com/hack-pad/hackpadfs"
	"github.com/hack-pad/hackpadfs/keyvalue"
	"github.com/hack-pad/hackpadfs/keyvalue/blob"
)

// c18Plain hides Transaction(), so keyvalue.TransactionOrSerial falls back to the serial transaction.
type c18Plain struct {
	s *store
	// failKey: the store rejects Set / fails Get for this key (plain stores can fail; "" = never)
	failSet, failGet string
}

var c18ErrStore = errors.New("store rejected the call")

func (p *c18Plain) Get(ctx context.Context, path string) (keyvalue.FileRecord, error) {
	if path == p.failGet {
		return nil, c18ErrStore
	}
	return p.s.Get(ctx, path)
}
func (p *c18Plain) Set(ctx context.Context, path string, src keyvalue.FileRecord) error {
	if path == p.failSet {
		return c18ErrStore
	}
	return p.s.Set(ctx, path, src)
}

type c18Rec struct {
	present bool
	mode    hackpadfs.FileMode
	b       byte
}

var c18Keys = []string{"a", "b"}
var c18FailSet, c18FailGet string
var c18ErrHandler = errors.New("handler failed")

type c18Expect struct {
	isGet      bool
	key        int
	afterAbort bool
	handlerErr bool
	storeErr   bool   // the store rejected / failed this call
	want       c18Rec // for Get: the record the model holds at call time
}

func c18Record(mode hackpadfs.FileMode, b byte) keyvalue.FileRecord {
	return keyvalue.NewBaseFileRecord(1, time.Unix(100, 0), mode, nil,
		func() (blob.Blob, error) { return blob.NewBytes([]byte{b}), nil }, nil)
}

func c18Begin(s *store, serial bool) keyvalue.Transaction {
	var txn keyvalue.Transaction
	var err error
	if serial {
		txn, err = keyvalue.TransactionOrSerial(&c18Plain{s: s, failSet: c18FailSet, failGet: c18FailGet}, keyvalue.TransactionOptions{Mode: keyvalue.TransactionReadWrite})
	} else {
		txn, err = keyvalue.TransactionOrSerial(s, keyvalue.TransactionOptions{Mode: keyvalue.TransactionReadWrite})
	}
	verifAssert(err == nil && txn != nil, "opening a transaction failed")
	return txn
}

func c18CheckGet(res keyvalue.OpResult, want c18Rec, where string) {
	if !want.present {
		verifAssert(res.Err != nil && errors.Is(res.Err, hackpadfs.ErrNotExist), where+": Get of a missing key must report ErrNotExist")
		return
	}
	verifAssert(res.Err == nil, where+": Get of a present key failed")
	verifAssert(res.Record != nil, where+": Get of a present key returned no record")
	verifAssert(res.Record.Mode() == want.mode, where+": Get does not reflect the latest Set (mode)")
	data, err := res.Record.Data()
	verifAssert(err == nil && data.Len() == 1, where+": record data")
	verifAssert(data.Bytes()[0] == want.b, where+": Get does not reflect the latest Set (data)")
}

// VerifC18Seq: a sequence of K transaction calls against a map model, then the store must still be usable.
func VerifC18Seq() {
	s := newStore()
	serial := verifChoice("impl", 2) == 1
	if serial {
		verifTag("impl", "serial-fallback")
	} else {
		verifTag("impl", "mem-transaction")
	}
	model := make([]c18Rec, len(c18Keys))
	// a previously committed transaction
	if verifChoice("pre", 2) == 1 {
		pre := c18Begin(s, serial)
		m0, b0 := hackpadfs.FileMode(verifUint32("pre.mode")), verifByte("pre.b")
		pre.Set("a", c18Record(m0, b0), nil)
		res, err := pre.Commit(context.Background())
		verifAssert(err == nil && len(res) == 1 && res[0].Err == nil, "pre-transaction failed")
		model[0] = c18Rec{true, m0, b0}
	}

	c18FailSet, c18FailGet = "", ""
	storeFault := 0
	if serial {
		// a plain store may reject a call: the rejection is that operation's error, whatever the handler returns
		storeFault = verifChoice("store-fault", 3)
		switch storeFault {
		case 1:
			c18FailSet = "a"
			verifTag("store-fault", "Set(a) rejected")
		case 2:
			c18FailGet = "a"
			verifTag("store-fault", "Get(a) fails")
		}
	}
	txn := c18Begin(s, serial)
	c18FailSet, c18FailGet = "", ""
	var expect []c18Expect
	aborted := false
	nested, anyNested := false, false
	var nestedOp keyvalue.OpID = -1
	handlerFor := func(id string) (keyvalue.OpHandler, bool, bool) {
		switch verifChoice(id+".handler", 4) {
		case 3:
			// the handler's "opportunity to perform more operations": a Get of key b issued from inside it is a
			// call of its own (own id, own result)
			verifTag("handler", "issues-an-operation")
			nested = true
			return keyvalue.OpHandlerFunc(func(t keyvalue.Transaction, r keyvalue.OpResult) error {
				nestedOp = t.Get(c18Keys[1])
				return nil
			}), false, false
		case 1:
			verifTag("handler", "fails")
			return keyvalue.OpHandlerFunc(func(t keyvalue.Transaction, r keyvalue.OpResult) error { return c18ErrHandler }), true, false
		case 2:
			verifTag("handler", "aborts")
			return keyvalue.OpHandlerFunc(func(t keyvalue.Transaction, r keyvalue.OpResult) error { return t.Abort() }), false, true
		}
		return keyvalue.OpHandlerFunc(func(t keyvalue.Transaction, r keyvalue.OpResult) error { return nil }), false, false
	}
	K := verifParam("K")
	if verifChoice("empty-transaction", 2) == 1 {
		K = 0 // a transaction that is committed without a single call must release the store as well
		verifTag("calls", "none")
	}
	for i := 0; i < K; i++ {
		id := verifName("c", i)
		k := verifChoice(id+".key", len(c18Keys))
		var op keyvalue.OpID
		switch verifChoice(id+".op", 5) {
		case 0:
			op = txn.Get(c18Keys[k])
			expect = append(expect, c18Expect{isGet: true, key: k, afterAbort: aborted, want: model[k], storeErr: storeFault == 2 && k == 0})
		case 1:
			h, herr, habort := handlerFor(id)
			isNested := nested
			nested = false
			op = txn.GetHandler(c18Keys[k], h)
			expect = append(expect, c18Expect{isGet: true, key: k, afterAbort: aborted, handlerErr: herr, want: model[k], storeErr: storeFault == 2 && k == 0})
			if isNested {
				verifAssert(int64(op) == int64(len(expect)-1), "operation ids must count the calls in order")
				if nestedOp >= 0 { // the handler ran (it does not for a call made after Abort)
					verifAssert(int64(nestedOp) == int64(len(expect)), "an operation issued by a handler must get the next operation id")
					expect = append(expect, c18Expect{isGet: true, key: 1, afterAbort: aborted, want: model[1]})
					anyNested = true
				}
				nestedOp = -1
				continue
			}
			if habort && !aborted {
				aborted = true
				verifTag("abort", "by-handler")
			}
		case 2:
			var rec keyvalue.FileRecord
			var data blob.Blob
			next := c18Rec{}
			if verifChoice(id+".delete", 2) == 0 {
				m, b := hackpadfs.FileMode(verifUint32(id+".mode")), verifByte(id+".b")
				rec, data = c18Record(m, b), blob.NewBytes([]byte{b})
				next = c18Rec{true, m, b}
			}
			op = txn.Set(c18Keys[k], rec, data)
			rejected := storeFault == 1 && k == 0
			expect = append(expect, c18Expect{key: k, afterAbort: aborted, storeErr: rejected})
			if !aborted && !rejected {
				model[k] = next
			}
		case 3:
			h, herr, habort := handlerFor(id)
			m, b := hackpadfs.FileMode(verifUint32(id+".mode")), verifByte(id+".b")
			isNested := nested
			nested = false
			op = txn.SetHandler(c18Keys[k], c18Record(m, b), blob.NewBytes([]byte{b}), h)
			rejected := storeFault == 1 && k == 0
			expect = append(expect, c18Expect{key: k, afterAbort: aborted, handlerErr: herr, storeErr: rejected})
			if !aborted && !rejected {
				model[k] = c18Rec{true, m, b}
			}
			if isNested {
				verifAssert(int64(op) == int64(len(expect)-1), "operation ids must count the calls in order")
				if nestedOp >= 0 {
					verifAssert(int64(nestedOp) == int64(len(expect)), "an operation issued by a handler must get the next operation id")
					expect = append(expect, c18Expect{isGet: true, key: 1, afterAbort: aborted, want: model[1]})
					anyNested = true
				}
				nestedOp = -1
				continue
			}
			if habort && !aborted {
				aborted = true
				verifTag("abort", "by-handler")
			}
		case 4:
			if aborted {
				continue // a second Abort is not part of the statement
			}
			verifAssert(txn.Abort() == nil, "Abort failed")
			aborted = true
			verifTag("abort", "explicit")
			continue
		}
		verifAssert(int64(op) == int64(len(expect)-1), "operation ids must count the calls in order")
	}
	verifReach("before-end")
	if aborted {
		verifTag("end", "commit-after-abort")
	} else {
		verifTag("end", "commit")
	}
	commitCtx := context.Background()
	ctxDone := verifChoice("commit-ctx", 2) == 1
	if ctxDone {
		// Commit with a context that is already cancelled: it may fail, but the store must stay usable
		verifTag("commit-ctx", "already-cancelled")
		c, cancel := context.WithCancel(context.Background())
		cancel()
		commitCtx = c
	}
	results, err := txn.Commit(commitCtx)
	verifReach("after-end")
	if !aborted && !ctxDone {
		verifAssert(err == nil, "Commit of a live transaction failed")
	}
	if err == nil {
		verifAssert(len(results) == len(expect), "Commit must return exactly one result per call")
		for i, ex := range expect {
			res := results[i]
			if anyNested {
				// the result of an operation issued by a handler may precede its parent's: look results up by id
				found := 0
				for _, r := range results {
					if int64(r.Op) == int64(i) {
						res = r
						found++
					}
				}
				verifAssert(found == 1, "Commit must return exactly one result per operation id")
			} else {
				verifAssert(int64(res.Op) == int64(i), "results must be in call order with matching operation ids")
			}
			switch {
			case ex.afterAbort:
				verifAssert(res.Err != nil, "a call made after Abort must report an error")
			case ex.storeErr:
				verifAssert(res.Err != nil && errors.Is(res.Err, c18ErrStore), "a call the store rejected must report the store's error, whatever its handler returns")
			case ex.handlerErr && (!ex.isGet || ex.want.present):
				verifAssert(res.Err == c18ErrHandler, "a handler error must become the operation's error")
			case ex.isGet:
				c18CheckGet(res, ex.want, "result")
			default:
				verifAssert(res.Err == nil, "Set failed")
			}
		}
	}
	// however the transaction ended, the store is usable and holds exactly the model
	after := c18Begin(s, serial)
	for k := range c18Keys {
		after.Get(c18Keys[k])
	}
	res2, err := after.Commit(context.Background())
	verifAssert(err == nil && len(res2) == len(c18Keys), "a fresh transaction after the end must commit")
	if !(ctxDone && err != nil) { // (which Sets a Commit that failed on its context applied is not specified)
		for k := range c18Keys {
			c18CheckGet(res2[k], model[k], "afterwards")
		}
	}
	verifReach("store-usable")
}

// c18Sched wraps a transaction so that every call is a scheduling point of the harness.
type c18Sched struct{ t keyvalue.Transaction }

func (c c18Sched) Get(path string) keyvalue.OpID { verifSched("txn.get"); return c.t.Get(path) }
func (c c18Sched) GetHandler(path string, h keyvalue.OpHandler) keyvalue.OpID {
	verifSched("txn.get")
	return c.t.GetHandler(path, h)
}
func (c c18Sched) Set(path string, src keyvalue.FileRecord, contents blob.Blob) keyvalue.OpID {
	verifSched("txn.set")
	return c.t.Set(path, src, contents)
}
func (c c18Sched) SetHandler(path string, src keyvalue.FileRecord, contents blob.Blob, h keyvalue.OpHandler) keyvalue.OpID {
	verifSched("txn.set")
	return c.t.SetHandler(path, src, contents, h)
}
func (c c18Sched) Commit(ctx context.Context) ([]keyvalue.OpResult, error) {
	verifSched("txn.commit")
	return c.t.Commit(ctx)
}
func (c c18Sched) Abort() error { verifSched("txn.abort"); return c.t.Abort() }

func c18BeginSched(s *store, mode keyvalue.TransactionMode) keyvalue.Transaction {
	verifSched("txn.begin")
	// through the entry point the file system uses (it must pick the store's own transactions for every mode)
	t, err := keyvalue.TransactionOrSerial(s, keyvalue.TransactionOptions{Mode: mode})
	verifAssert(err == nil, "Transaction failed")
	return c18Sched{t}
}

// VerifC18Conc (tier B): transactions of the in-memory store never observe each other's partial effects:
// a writer sets a and b in one transaction, readers get a and b in one transaction.
func VerifC18Conc() {
	s := newStore()
	init := c18Begin(s, false)
	init.Set("a", c18Record(0644, 1), nil)
	init.Set("b", c18Record(0644, 1), nil)
	_, err := init.Commit(context.Background())
	verifAssert(err == nil, "initial commit")
	staleAbort := verifChoice("stale-abort", 2) == 1
	if staleAbort {
		verifTag("stale-abort", "yes")
	}
	n := verifParam("READERS")
	seenA, seenB := make([]byte, n), make([]byte, n)
	var wg sync.WaitGroup
	wg.Add(1 + n)
	go func() {
		defer wg.Done()
		verifGo(1)
		defer verifGoDone()
		w := c18BeginSched(s, keyvalue.TransactionReadWrite)
		if staleAbort {
			// the usual "defer txn.Abort()" of a transaction that was committed long ago fires now, inside its
			// successor's lifetime: it must not release the successor's hold on the store
			_ = init.Abort()
		}
		w.Set("a", c18Record(0644, 2), nil)
		w.Set("b", c18Record(0644, 2), nil)
		_, _ = w.Commit(context.Background())
	}()
	for i := 0; i < n; i++ {
		i := i
		go func() {
			defer wg.Done()
			verifGo(2 + i)
			defer verifGoDone()
			mode := keyvalue.TransactionReadOnly
			r := c18BeginSched(s, mode)
			r.Get("a")
			r.Get("b")
			res, err := r.Commit(context.Background())
			if err == nil && len(res) == 2 && res[0].Err == nil && res[1].Err == nil {
				da, _ := res[0].Record.Data()
				db, _ := res[1].Record.Data()
				seenA[i], seenB[i] = da.Bytes()[0], db.Bytes()[0]
			}
		}()
	}
	wg.Wait()
	verifReach("conc-done")
	for i := 0; i < n; i++ {
		verifAssert(seenA[i] != 0 && seenB[i] != 0, "a reader transaction failed")
		verifAssert(seenA[i] == seenB[i], "a transaction observed another transaction's partial effects")
	}
}
