package blob

import "sync"

// C19 harnesses: blob.Bytes against a []byte model. Arguments are fully symbolic int64;
// the blob's length is symbolic in [0,N], its bytes are symbolic.

func c19Blob(prefix string, maxParam string) (*Bytes, []byte, int64) {
	max := int64(verifParam(maxParam))
	n := verifInt64(prefix + ".len")
	verifAssume(n >= 0)
	verifAssume(n <= max)
	buf := verifBytes(prefix, int(n))
	model := make([]byte, len(buf))
	copy(model, buf)
	return NewBytes(buf), model, n
}

func c19Same(b Blob, model []byte, label string) {
	verifAssert(b.Len() == len(model), label+": length differs from the model")
	got := b.Bytes()
	verifAssert(len(got) == len(model), label+": len(Bytes()) differs from the model")
	for i := range model {
		verifAssert(got[i] == model[i], label+": byte differs from the model")
	}
}

func c19InRange(s, e, n int64) bool { return s >= 0 && e >= s && e <= n }

// c19AssumeRange assumes 0 <= s <= e <= n without forking (one assumption per conjunct).
func c19AssumeRange(s, e, n int64) {
	verifAssume(s >= 0)
	verifAssume(e >= s)
	verifAssume(e <= n)
}

// VerifC19Slice: Slice(s,e) for arbitrary s,e.
func VerifC19Slice() {
	b, model, n := c19Blob("b", "N")
	s, e := verifInt64("s"), verifInt64("e")
	r, err := b.Slice(s, e)
	verifObserveBool("err", err != nil)
	if !c19InRange(s, e, n) {
		verifReach("slice-out-of-range")
		verifAssert(err != nil, "Slice: out-of-range arguments must be answered with an error")
		c19Same(b, model, "Slice(out of range) left the blob")
		return
	}
	verifReach("slice-in-range")
	verifAssert(err == nil, "Slice: in-range arguments must succeed")
	verifObserve("len", int64(r.Len()))
	c19Same(r, model[s:e], "Slice result")
	c19Same(b, model, "Slice left the blob")
	// independence: writing into the copy must not change the original
	if e-s > 0 {
		w := NewBytes([]byte{model[s] + 1})
		_, _ = Set(r, w, 0)
		c19Same(b, model, "write into a Slice copy changed the original; blob")
	}
}

// VerifC19View: View(s,e) for arbitrary s,e; views alias the original.
func VerifC19View() {
	b, model, n := c19Blob("b", "N")
	s, e := verifInt64("s"), verifInt64("e")
	r, err := b.View(s, e)
	verifObserveBool("err", err != nil)
	if !c19InRange(s, e, n) {
		verifReach("view-out-of-range")
		verifAssert(err != nil, "View: out-of-range arguments must be answered with an error")
		c19Same(b, model, "View(out of range) left the blob")
		return
	}
	verifReach("view-in-range")
	verifAssert(err == nil, "View: in-range arguments must succeed")
	c19Same(r, model[s:e], "View result")
	if e-s > 0 {
		// write through the view at a symbolic position: visible in the original
		k := verifInt64("k")
		verifAssume(k >= 0)
		verifAssume(k < e-s)
		x := verifByte("x")
		cnt, err := Set(r, NewBytes([]byte{x}), k)
		verifAssert(err == nil && cnt == 1, "Set through a view failed")
		model[s+k] = x
		c19Same(b, model, "write through a view; original")
		// and the other way round
		y := verifByte("y")
		cnt, err = b.Set(NewBytes([]byte{y}), s+k)
		verifAssert(err == nil && cnt == 1, "Set on the original failed")
		model[s+k] = y
		c19Same(r, model[s:e], "write into the original; view")
	}
	// a view has its own length (v := b[s:e]; v = v[:t] leaves b alone), also when it spans the whole blob
	t := verifInt64("t")
	verifAssume(t >= 0)
	verifAssume(t <= e-s)
	verifAssert(Truncate(r, t) == nil, "Truncate of a view failed")
	c19Same(r, model[s:s+t], "Truncate of a view; view")
	c19Same(b, model, "Truncate of a view; original")
}

// VerifC19Set: Set(src, off) for arbitrary off.
func VerifC19Set() {
	b, model, n := c19Blob("b", "N")
	src, smodel, m := c19Blob("src", "M")
	off := verifInt64("off")
	cnt, err := b.Set(src, off)
	verifObserveBool("err", err != nil)
	verifObserve("cnt", int64(cnt))
	if off < 0 || off > n {
		verifReach("set-out-of-range")
		verifAssert(err != nil, "Set: out-of-range offset must be answered with an error")
		c19Same(b, model, "Set(out of range) left the blob")
		return
	}
	verifReach("set-in-range")
	want := copy(model[off:], smodel)
	if err == nil {
		verifAssert(int64(cnt) == int64(want), "Set: returned count differs from copy()")
		c19Same(b, model, "Set result")
	} else {
		// an error is tolerated only if nothing could be copied, and must leave the blob alone
		verifAssert(want == 0 || m == 0, "Set: in-range offset with room to copy must succeed")
		verifAssert(cnt == 0, "Set: error with non-zero count")
	}
	c19Same(src, smodel, "Set left the source")
}

// VerifC19Grow: Grow(g) for arbitrary g (bounded above to bound allocation).
func VerifC19Grow() {
	b, model, n := c19Blob("b", "N")
	g := verifInt64("g")
	verifAssume(g <= int64(verifParam("G")))
	if g < 0 {
		verifReach("grow-negative")
	}
	err := b.Grow(g)
	verifObserveBool("err", err != nil)
	if g < 0 {
		verifAssert(err != nil, "Grow: negative amount must be answered with an error")
		c19Same(b, model, "Grow(negative) left the blob")
		return
	}
	verifReach("grow-ok")
	verifAssert(err == nil, "Grow: non-negative amount must succeed")
	verifAssert(int64(b.Len()) == n+g, "Grow: length")
	got := b.Bytes()
	verifAssert(int64(len(got)) == n+g, "Grow: len(Bytes())")
	for i := int64(0); i < n+g; i++ {
		if i < n {
			verifAssert(got[i] == model[i], "Grow: old bytes preserved")
		} else {
			verifAssert(got[i] == 0, "Grow: new bytes are zero")
		}
	}
}

// VerifC19Truncate: Truncate(t) for arbitrary t.
func VerifC19Truncate() {
	b, model, n := c19Blob("b", "N")
	t := verifInt64("t")
	if t < 0 {
		verifReach("truncate-negative")
	}
	err := b.Truncate(t)
	verifObserveBool("err", err != nil)
	if t < 0 {
		verifAssert(err != nil, "Truncate: negative size must be answered with an error")
		c19Same(b, model, "Truncate(negative) left the blob")
		return
	}
	verifAssert(err == nil, "Truncate: non-negative size must succeed")
	if t >= n {
		verifReach("truncate-noop")
		c19Same(b, model, "Truncate(size >= len) left the blob")
		return
	}
	verifReach("truncate-cut")
	c19Same(b, model[:t], "Truncate result")
}

// VerifC19SelfSet: writing a view of a blob back into that blob terminates and equals copy().
func VerifC19SelfSet() {
	b, model, n := c19Blob("b", "N")
	s, e := verifInt64("s"), verifInt64("e")
	c19AssumeRange(s, e, n)
	off := verifInt64("off")
	verifAssume(off >= 0)
	verifAssume(off <= n)
	v, err := b.View(s, e)
	verifAssert(err == nil, "View: in-range arguments must succeed")
	verifReach("selfset-call")
	cnt, err := b.Set(v, off)
	verifReach("selfset-returned")
	if err == nil {
		tmp := make([]byte, e-s)
		copy(tmp, model[s:e])
		want := copy(model[off:], tmp)
		verifAssert(cnt == want, "self Set: count")
		c19Same(b, model, "self Set result")
	}
}

// VerifC19Seq: K operations with symbolic arguments on a blob and a view of it, against the model.
// The view's aliasing is compared until the base is reallocated (Grow) or cut (Truncate).
func VerifC19Seq() {
	b, model, n := c19Blob("b", "N")
	vs, ve := verifInt64("vs"), verifInt64("ve")
	c19AssumeRange(vs, ve, n)
	view, err := b.View(vs, ve)
	verifAssert(err == nil, "View: in-range arguments must succeed")
	aliased := true
	K := verifParam("K")
	for step := 0; step < K; step++ {
		a1 := verifInt64(verifName("a", step))
		a2 := verifInt64(verifName("b", step))
		switch verifChoice(verifName("op", step), 6) {
		case 0: // Set on base, in range
			verifTag(verifName("op", step), "Set")
			verifAssume(a1 >= 0)
			verifAssume(a1 <= int64(len(model)))
			x := verifByte(verifName("x", step))
			cnt, err := b.Set(NewBytes([]byte{x}), a1)
			if a1 < int64(len(model)) {
				verifAssert(err == nil && cnt == 1, "seq: Set in range")
				model[a1] = x
			}
		case 1: // Set through the view
			verifTag(verifName("op", step), "SetView")
			if !aliased {
				continue
			}
			verifAssume(a1 >= 0)
			verifAssume(a1 < ve-vs)
			x := verifByte(verifName("x", step))
			cnt, err := Set(view, NewBytes([]byte{x}), a1)
			verifAssert(err == nil && cnt == 1, "seq: Set through view in range")
			model[vs+a1] = x
		case 2: // Grow
			verifTag(verifName("op", step), "Grow")
			verifAssume(a1 >= 0)
			verifAssume(a1 <= 2)
			verifAssert(b.Grow(a1) == nil, "seq: Grow")
			if a1 > 0 {
				aliased = false
				model = append(model, make([]byte, a1)...)
			}
		case 3: // Truncate
			verifTag(verifName("op", step), "Truncate")
			verifAssume(a1 >= 0)
			verifAssume(a1 <= int64(len(model)))
			verifAssert(b.Truncate(a1) == nil, "seq: Truncate")
			model = model[:a1]
			if a1 < ve {
				aliased = false
			}
		case 4: // Slice
			verifTag(verifName("op", step), "Slice")
			c19AssumeRange(a1, a2, int64(len(model)))
			r, err := b.Slice(a1, a2)
			verifAssert(err == nil, "seq: Slice in range")
			c19Same(r, model[a1:a2], "seq: Slice result")
		case 5: // View of view
			verifTag(verifName("op", step), "ViewOfView")
			if !aliased {
				continue
			}
			c19AssumeRange(a1, a2, ve-vs)
			r, err := View(view, a1, a2)
			verifAssert(err == nil, "seq: View of view in range")
			c19Same(r, model[vs+a1:vs+a2], "seq: View of view result")
		}
		c19Same(b, model, "seq: blob after step")
		if aliased {
			c19Same(view, model[vs:ve], "seq: view after step")
		}
	}
	verifReach("seq-end")
}

// minimal Blob: only Bytes/Len, so the package functions take their copy fall-backs.
type c19Minimal struct{ data []byte }

func (m *c19Minimal) Bytes() []byte { return m.data }
func (m *c19Minimal) Len() int      { return len(m.data) }

// VerifC19Fallback: blob.View / blob.Slice on a Blob without the optional interfaces.
func VerifC19Fallback() {
	max := int64(verifParam("N"))
	n := verifInt64("n")
	verifAssume(n >= 0)
	verifAssume(n <= max)
	buf := verifBytes("b", int(n))
	m := &c19Minimal{buf}
	s, e := verifInt64("s"), verifInt64("e")
	var r Blob
	var err error
	if verifChoice("which", 2) == 0 {
		verifTag("fn", "View")
		r, err = View(m, s, e)
	} else {
		verifTag("fn", "Slice")
		r, err = Slice(m, s, e)
	}
	if !c19InRange(s, e, n) {
		verifReach("fallback-out-of-range")
		verifAssert(err != nil, "fallback: out-of-range arguments must be answered with an error")
		return
	}
	verifReach("fallback-in-range")
	verifAssert(err == nil, "fallback: in-range arguments must succeed")
	c19Same(r, buf[s:e], "fallback result")
}

// VerifC19CrossSet: two independent blobs copied into each other by two goroutines at the same time
// (Set(x, y) || Set(y, x)), interleaved at every acquisition of a blob mutex: both calls return (no lock is
// held while another blob's lock is taken), and each destination ends up with the other's old or new bytes.
func VerifC19CrossSet() {
	x := NewBytes([]byte{1, 2})
	y := NewBytes([]byte{3, 4})
	var wg sync.WaitGroup
	wg.Add(2)
	go func() {
		defer wg.Done()
		verifGo(1)
		defer verifGoDone()
		_, _ = Set(x, y, 0)
	}()
	go func() {
		defer wg.Done()
		verifGo(2)
		defer verifGoDone()
		_, _ = Set(y, x, 0)
	}()
	wg.Wait()
	verifReach("both-returned")
	xb, yb := x.Bytes(), y.Bytes()
	verifAssert(len(xb) == 2 && len(yb) == 2, "a crosswise Set changed a length")
	verifAssert((xb[0] == 1 || xb[0] == 3) && (yb[0] == 1 || yb[0] == 3), "a crosswise Set produced a byte neither blob held")
}

// VerifC19AliasAfterTruncate: a view keeps aliasing the original after the original (or the view) has been
// truncated, however deep the cut (b = b[:k] never re-allocates): a byte written through one side within
// both lengths is seen through the other.
func VerifC19AliasAfterTruncate() {
	init := verifBytes("b", 16)
	b := NewBytes(init)
	model := append([]byte{}, init...)
	v, err := b.View(0, 8)
	verifAssert(err == nil, "View failed")
	k := verifInt64("k")
	verifAssume(k >= 1)
	verifAssume(k <= 16)
	verifAssert(Truncate(b, k) == nil, "Truncate failed")
	model = model[:k]
	// write through the view at a position both still cover
	pos := verifInt64("pos")
	verifAssume(pos >= 0)
	verifAssume(pos < k)
	verifAssume(pos < 8)
	x := verifByte("x")
	n, err := Set(v, NewBytes([]byte{x}), pos)
	verifAssert(err == nil && n == 1, "Set through the view failed")
	model[pos] = x
	verifReach("written")
	c19Same(b, model, "write through a view after the original was truncated; original")
	// and the other way round
	y := verifByte("y")
	n, err = Set(b, NewBytes([]byte{y}), pos)
	verifAssert(err == nil && n == 1, "Set on the original failed")
	vb := v.Bytes()
	verifAssert(vb[pos] == y, "write into the truncated original is not seen through the view")
}
