package mount

// A minimal plain keyvalue.Store (Get/Set only, no Transaction): keyvalue.FS over it takes the serial
// fallback transaction, the path custom stores (such as the S3 example) take. Optional fault injection:
// the store call whose running index equals faultAt fails with pErrInjected.

import (
	"context"
	"errors"
	"strings"
	"time"

	"github.com/hack-pad/hackpadfs"
	"github.com/hack-pad/hackpadfs/keyvalue"
	"github.com/hack-pad/hackpadfs/keyvalue/blob"
)

var pErrInjected = errors.New("injected store failure")

type pRec struct {
	data    blob.Blob
	mode    hackpadfs.FileMode
	modTime time.Time
}

type pStore struct {
	keys    []string // parallel slices instead of a map: keys may be symbolic strings
	vals    []*pRec
	calls   int
	faultAt int // -1: never
	fired   bool
	// failing: every store call fails (an outage that lasts), whatever faultAt says
	failing bool
	// lazy faults: fail the record's Data()/ReadDirNames() evaluation instead of the store call
	faultLazy bool
	// ownCopy: the store keeps its own copy of a file's bytes, as a remote store does (Set copies in, Data
	// copies out); the default shares the blob with the file system, like the in-memory store
	ownCopy bool
}

func pNewStore() *pStore { return &pStore{faultAt: -1} }

func (s *pStore) find(path string) int {
	for i, k := range s.keys {
		if k == path {
			return i
		}
	}
	return -1
}

func (s *pStore) fault() bool {
	i := s.calls
	s.calls++
	if s.failing {
		s.fired = true
		return true
	}
	if i == s.faultAt && !s.faultLazy {
		s.fired = true
		return true
	}
	return false
}

func (s *pStore) lazyFault() bool {
	i := s.calls
	s.calls++
	if i == s.faultAt && s.faultLazy {
		s.fired = true
		return true
	}
	return false
}

func (s *pStore) Get(ctx context.Context, path string) (keyvalue.FileRecord, error) {
	if s.fault() {
		return nil, pErrInjected
	}
	idx := s.find(path)
	if idx < 0 {
		return nil, hackpadfs.ErrNotExist
	}
	r := s.vals[idx]
	var getData func() (blob.Blob, error)
	var getDirNames func() ([]string, error)
	if r.mode.IsDir() {
		getDirNames = func() ([]string, error) {
			if s.lazyFault() {
				return nil, pErrInjected
			}
			return s.dirNames(path), nil
		}
	} else {
		getData = func() (blob.Blob, error) {
			if s.lazyFault() {
				return nil, pErrInjected
			}
			if s.ownCopy && r.data != nil {
				return blob.NewBytes(append([]byte{}, r.data.Bytes()...)), nil
			}
			return r.data, nil
		}
	}
	size := int64(0)
	if r.data != nil {
		size = int64(r.data.Len())
	}
	return keyvalue.NewBaseFileRecord(size, r.modTime, r.mode, nil, getData, getDirNames), nil
}

func (s *pStore) dirNames(dir string) []string {
	prefix := dir + "/"
	if dir == "." {
		prefix = ""
	}
	var names []string
	for _, k := range s.keys {
		if k == "." {
			continue
		}
		if strings.HasPrefix(k, prefix) && !strings.Contains(k[len(prefix):], "/") {
			names = append(names, k[len(prefix):])
		}
	}
	return names
}

func (s *pStore) Set(ctx context.Context, path string, src keyvalue.FileRecord) error {
	if s.fault() {
		return pErrInjected
	}
	if src == nil {
		if i := s.find(path); i >= 0 {
			s.keys = append(s.keys[:i:i], s.keys[i+1:]...)
			s.vals = append(s.vals[:i:i], s.vals[i+1:]...)
		}
		return nil
	}
	rec := &pRec{mode: src.Mode(), modTime: src.ModTime()}
	if !src.Mode().IsDir() {
		data, err := src.Data()
		if err != nil {
			return err
		}
		rec.data = data
		if s.ownCopy && data != nil {
			rec.data = blob.NewBytes(append([]byte{}, data.Bytes()...))
		}
	}
	if i := s.find(path); i >= 0 {
		s.vals[i] = rec
	} else {
		s.keys = append(s.keys, path)
		s.vals = append(s.vals, rec)
	}
	return nil
}
