package mount

// A minimal plain keyvalue.Store (Get/Set only, no Transaction): keyvalue.FS over it takes the serial
// fallback transaction, the path custom stores (such as the S3 example) take. Optional fault injection:
// the store call whose running index equals faultAt fails with pErrInjected.

import (
	"context"
	"errors"
	"strings"
	"time"

	"github.com/hack-pad/hackpadfs"
	"github.com/hack-pad/hackpadfs/keyvalue"
	"github.com/hack-pad/hackpadfs/keyvalue/blob"
)

var pErrInjected = errors.New("injected store failure")

type pRec struct {
	data    blob.Blob
	mode    hackpadfs.FileMode
	modTime time.Time
}

type pStore struct {
	recs    map[string]*pRec
	order   []string // deterministic iteration
	calls   int
	faultAt int // -1: never
	fired   bool
	// lazy faults: fail the record's Data()/ReadDirNames() evaluation instead of the store call
	faultLazy bool
}

func pNewStore() *pStore { return &pStore{recs: map[string]*pRec{}, faultAt: -1} }

func (s *pStore) fault() bool {
	i := s.calls
	s.calls++
	if i == s.faultAt && !s.faultLazy {
		s.fired = true
		return true
	}
	return false
}

func (s *pStore) lazyFault() bool {
	i := s.calls
	s.calls++
	if i == s.faultAt && s.faultLazy {
		s.fired = true
		return true
	}
	return false
}

func (s *pStore) Get(ctx context.Context, path string) (keyvalue.FileRecord, error) {
	if s.fault() {
		return nil, pErrInjected
	}
	r, ok := s.recs[path]
	if !ok {
		return nil, hackpadfs.ErrNotExist
	}
	var getData func() (blob.Blob, error)
	var getDirNames func() ([]string, error)
	if r.mode.IsDir() {
		getDirNames = func() ([]string, error) {
			if s.lazyFault() {
				return nil, pErrInjected
			}
			return s.dirNames(path), nil
		}
	} else {
		getData = func() (blob.Blob, error) {
			if s.lazyFault() {
				return nil, pErrInjected
			}
			return r.data, nil
		}
	}
	size := int64(0)
	if r.data != nil {
		size = int64(r.data.Len())
	}
	return keyvalue.NewBaseFileRecord(size, r.modTime, r.mode, nil, getData, getDirNames), nil
}

func (s *pStore) dirNames(dir string) []string {
	prefix := dir + "/"
	if dir == "." {
		prefix = ""
	}
	var names []string
	for _, k := range s.order {
		if _, ok := s.recs[k]; !ok || k == "." {
			continue
		}
		if strings.HasPrefix(k, prefix) && !strings.Contains(k[len(prefix):], "/") {
			names = append(names, k[len(prefix):])
		}
	}
	return names
}

func (s *pStore) Set(ctx context.Context, path string, src keyvalue.FileRecord) error {
	if s.fault() {
		return pErrInjected
	}
	if src == nil {
		delete(s.recs, path)
		return nil
	}
	rec := &pRec{mode: src.Mode(), modTime: src.ModTime()}
	if !src.Mode().IsDir() {
		data, err := src.Data()
		if err != nil {
			return err
		}
		rec.data = data
	}
	if _, ok := s.recs[path]; !ok {
		s.order = append(s.order, path)
	}
	s.recs[path] = rec
	return nil
}
