package mount

// refos: an executable model of the Go os package's namespace semantics (Linux) on a small tree,
// and the step-harness plumbing shared by C01/C03/C05/C07/C08/C14. The model is validated natively
// against the real os package (symgo oraclefuzz ... TARGET=1 runs the same harness on os.FS).

import (
	"errors"
	goos "os"
	"path"
	"sort"
	"syscall"
	"time"

	"github.com/hack-pad/hackpadfs"
	"github.com/hack-pad/hackpadfs/keyvalue"
	"github.com/hack-pad/hackpadfs/mem"
	osfs "github.com/hack-pad/hackpadfs/os"
)

const (
	rAbsent = 0
	rFile   = 1
	rDir    = 2
)

type rNode struct {
	kind     int
	perm     hackpadfs.FileMode // permission bits only
	data     []byte
	mtime    int64 // seconds; meaningful when mtimeSet
	mtimeSet bool
	// set-uid / set-gid / sticky as set by the last Chmod (creation modes carry them platform-dependently,
	// so they are compared only once a Chmod has defined them)
	special    hackpadfs.FileMode
	specialSet bool
}

const rSpecialBits = hackpadfs.ModeSetuid | hackpadfs.ModeSetgid | hackpadfs.ModeSticky

type rTree struct{ n map[string]*rNode }

func rNewTree() *rTree { return &rTree{n: map[string]*rNode{".": {kind: rDir, perm: 0777}}} }

func (t *rTree) get(p string) *rNode {
	if n, ok := t.n[p]; ok {
		return n
	}
	return &rNode{}
}

func (t *rTree) kind(p string) int { return t.get(p).kind }

// touch: the operation may change p's modification time, so a Chtimes-set value is no longer promised.
func (t *rTree) touch(p string) {
	if n, ok := t.n[p]; ok {
		n.mtimeSet = false
	}
}

// walk resolves p: 0 = ok (exists), ENOENT, ENOTDIR.
func (t *rTree) walk(p string) syscall.Errno {
	if p == "." {
		return 0
	}
	if e := t.walk(path.Dir(p)); e != 0 {
		return e
	}
	if t.kind(path.Dir(p)) != rDir {
		return syscall.ENOTDIR
	}
	if t.kind(p) == rAbsent {
		return syscall.ENOENT
	}
	return 0
}

// parent resolves the directory that would contain p.
func (t *rTree) parent(p string) syscall.Errno {
	d := path.Dir(p)
	if e := t.walk(d); e != 0 {
		return e
	}
	if t.kind(d) != rDir {
		return syscall.ENOTDIR
	}
	return 0
}

func (t *rTree) children(p string) []string {
	var out []string
	for k, n := range t.n {
		if k != "." && n.kind != rAbsent && path.Dir(k) == p {
			out = append(out, path.Base(k))
		}
	}
	sort.Strings(out)
	return out
}

func (t *rTree) removeSubtree(p string) {
	for _, c := range t.children(p) {
		t.removeSubtree(path.Join(p, c))
	}
	delete(t.n, p)
}

func (t *rTree) moveSubtree(o, n string) {
	for _, c := range t.children(o) {
		t.moveSubtree(path.Join(o, c), path.Join(n, c))
	}
	t.n[n] = t.n[o]
	delete(t.n, o)
}

func rBelow(p, dir string) bool { // p strictly below dir
	return len(p) > len(dir)+1 && p[:len(dir)] == dir && p[len(dir)] == '/'
}

// ---- operations: each returns the errno class (0 = success) and the path os names in the error ----

func (t *rTree) mkdir(p string, perm hackpadfs.FileMode) (syscall.Errno, string) {
	if p == "." {
		return syscall.EEXIST, p
	}
	if e := t.parent(p); e != 0 {
		return e, p
	}
	if t.kind(p) != rAbsent {
		return syscall.EEXIST, p
	}
	t.n[p] = &rNode{kind: rDir, perm: perm & 0777}
	t.touch(path.Dir(p))
	return 0, ""
}

func (t *rTree) mkdirAll(p string, perm hackpadfs.FileMode) (syscall.Errno, string) {
	if t.walk(p) == 0 {
		if t.kind(p) == rDir {
			return 0, ""
		}
		return syscall.ENOTDIR, p
	}
	if p != "." {
		if e, ep := t.mkdirAll(path.Dir(p), perm); e != 0 {
			return e, ep
		}
	}
	e, ep := t.mkdir(p, perm)
	if e != 0 && t.walk(p) == 0 && t.kind(p) == rDir {
		return 0, ""
	}
	return e, ep
}

const (
	rAccMask = syscall.O_RDONLY | syscall.O_WRONLY | syscall.O_RDWR
)

func (t *rTree) openFile(p string, flag int, perm hackpadfs.FileMode) (syscall.Errno, string) {
	create := flag&syscall.O_CREAT != 0
	if create {
		if e := t.parent(p); e != 0 && p != "." {
			return e, p
		}
		switch {
		case t.kind(p) != rAbsent && flag&syscall.O_EXCL != 0:
			return syscall.EEXIST, p
		case t.kind(p) == rDir:
			return syscall.EISDIR, p
		case t.kind(p) == rAbsent:
			t.n[p] = &rNode{kind: rFile, perm: perm & 0777}
			t.touch(path.Dir(p))
		}
	} else if e := t.walk(p); e != 0 {
		return e, p
	}
	n := t.get(p)
	if n.kind == rDir && (flag&rAccMask != syscall.O_RDONLY || flag&syscall.O_TRUNC != 0) {
		return syscall.EISDIR, p
	}
	if n.kind == rFile && flag&syscall.O_TRUNC != 0 {
		n.data = nil
		n.mtimeSet = false
		n.specialSet = false // a write may clear set-uid/set-gid (platform- and privilege-dependent)
	}
	return 0, ""
}

func (t *rTree) writeFile(p string, data []byte, perm hackpadfs.FileMode) (syscall.Errno, string) {
	if e, ep := t.openFile(p, syscall.O_WRONLY|syscall.O_CREAT|syscall.O_TRUNC, perm); e != 0 {
		return e, ep
	}
	t.n[p].data = append([]byte{}, data...)
	t.n[p].mtimeSet = false
	t.n[p].specialSet = false
	return 0, ""
}

func (t *rTree) remove(p string) (syscall.Errno, string) {
	if e := t.walk(p); e != 0 {
		return e, p
	}
	if t.kind(p) == rDir && len(t.children(p)) > 0 {
		return syscall.ENOTEMPTY, p
	}
	delete(t.n, p)
	t.touch(path.Dir(p))
	return 0, ""
}

func (t *rTree) removeAll(p string) (syscall.Errno, string) {
	switch t.walk(p) {
	case syscall.ENOENT:
		return 0, ""
	case syscall.ENOTDIR:
		if t.walk(path.Dir(p)) != 0 {
			return syscall.ENOTDIR, path.Dir(p)
		}
		return syscall.ENOTDIR, p
	}
	t.removeSubtree(p)
	t.touch(path.Dir(p))
	return 0, ""
}

func (t *rTree) rename(o, n string) syscall.Errno {
	// Go's os.Rename pre-check: an existing directory at the new name
	if t.walk(n) == 0 && t.kind(n) == rDir {
		if e := t.walk(o); e != 0 {
			return e
		}
		return syscall.EEXIST
	}
	if e := t.parent(o); e != 0 {
		return e
	}
	if e := t.parent(n); e != 0 {
		return e
	}
	if t.kind(o) == rAbsent {
		return syscall.ENOENT
	}
	if o == n {
		return 0
	}
	if t.kind(o) == rDir && rBelow(n, o) {
		return syscall.EINVAL
	}
	if t.kind(o) == rDir && t.kind(n) == rFile {
		return syscall.ENOTDIR
	}
	if t.kind(n) != rAbsent {
		delete(t.n, n)
	}
	t.moveSubtree(o, n)
	t.touch(path.Dir(o))
	t.touch(path.Dir(n))
	return 0
}

func (t *rTree) chmod(p string, mode hackpadfs.FileMode) (syscall.Errno, string) {
	if e := t.walk(p); e != 0 {
		return e, p
	}
	t.n[p].perm = mode & 0777
	t.n[p].special, t.n[p].specialSet = mode&rSpecialBits, true
	return 0, ""
}

func (t *rTree) chtimes(p string, sec int64) (syscall.Errno, string) {
	if e := t.walk(p); e != 0 {
		return e, p
	}
	t.n[p].mtime, t.n[p].mtimeSet = sec, true
	return 0, ""
}

func (t *rTree) stat(p string) (syscall.Errno, string) {
	if e := t.walk(p); e != 0 {
		return e, p
	}
	return 0, ""
}

// ---- the file system under test ----

// rFS: the file system under test, always driven through the package-level helpers so that
// compositions (mount, Sub, capability masks) can be plugged in.
type rFS = hackpadfs.FS

var rCleanup []string

func rDone() {
	for _, d := range rCleanup {
		goos.RemoveAll(d)
	}
	rCleanup = nil
}

// rNewFS: TARGET 0 = mem.FS (the subject); TARGET 1 = the real os package in a temp dir (oracle validation).
func rNewFS() rFS {
	if verifParam("TARGET") == 1 {
		dir, err := goos.MkdirTemp("", "verif-refos-")
		if err != nil {
			panic(err)
		}
		rCleanup = append(rCleanup, dir)
		syscall.Umask(0)
		sub, err := osfs.NewFS().Sub(dir[1:])
		if err != nil {
			panic(err)
		}
		return sub
	}
	if verifParam("TARGET") == 2 {
		// keyvalue.FS over a plain Store: serial fallback transactions
		fs, err := keyvalue.NewFS(pNewStore())
		verifAssert(err == nil, "keyvalue.NewFS failed")
		return fs
	}
	fs, err := mem.NewFS()
	verifAssert(err == nil, "NewFS failed")
	return fs
}

// ---- universe and symbolic pre-state ----

// rUniverse lists the paths that may exist in a pre-state (parents first); rCandidates the argument paths.
func rUniverse() []string {
	switch verifParam("UNIVERSE") {
	case 2:
		return []string{"a", "b", "a/a", "a/b", "b/a", "b/b"}
	case 3: // a directory with two children (for partial-failure faults)
		return []string{"a", "a/a", "a/b"}
	case 4: // names that share a string prefix without being related (a vs ab)
		return []string{"a", "ab", "ab/a"}
	case 5: // names that begin with a dot (ordinary names: only "." and ".." are special)
		return []string{".k", "b", ".k/.a"}
	case 6: // names with glob metacharacters (ordinary bytes) next to a look-alike the pattern would match
		return []string{"a[b]", "ab", "a[b]/c"}
	}
	return []string{"a", "b", "a/a"}
}

func rCandidates() []string {
	switch verifParam("UNIVERSE") {
	case 2:
		return []string{".", "a", "b", "c", "a/a", "a/b", "a/c", "b/a", "c/c", "a/a/a", "a/a/c"}
	case 3:
		return []string{".", "a", "c", "a/a", "a/b", "a/c"}
	case 4:
		return []string{".", "a", "ab", "abc", "a/a", "a/ab", "ab/a", "ab/c"}
	case 5:
		return []string{".", ".k", "b", "...", ".k/.a", ".k/c", "b/.c", ".c"}
	case 6:
		return []string{".", "a[b]", "ab", "a*", "a[b]/c", "a[b]/a", "ab/c", "a?"}
	}
	return []string{".", "a", "b", "c", "a/a", "a/c", "c/c", "a/a/a", "a/a/c", "b/c"}
}

// rClosure: every path whose state is compared (candidates, their parents and one level below).
func rClosure() []string {
	seen := map[string]bool{}
	var out []string
	add := func(p string) {
		if !seen[p] {
			seen[p] = true
			out = append(out, p)
		}
	}
	for _, c := range rCandidates() {
		add(c)
		if c != "." {
			for _, x := range []string{"a", "c"} {
				add(c + "/" + x)
			}
		}
	}
	for _, u := range rUniverse() {
		add(u)
	}
	sort.Strings(out)
	return out
}

func rPerm(name string) hackpadfs.FileMode {
	// symbolic permission bits; owner rwx kept so the real os (oracle validation) can traverse
	return hackpadfs.FileMode(verifUint32(name))&0777 | 0700
}

// rOwner: the owner bits forced into every mode of the operation under test (so that the real os, when it is
// the target, can still traverse and write). With NOFORCE=1 (in-memory targets only) nothing is forced: modes
// such as 0, 0444 or 0555 are then exercised too.
func rOwner(bits hackpadfs.FileMode) hackpadfs.FileMode {
	if verifParam("NOFORCE") != 0 {
		return 0
	}
	return bits
}

// rSymTree builds an arbitrary well-formed tree over the universe through the public API, in the
// FS under test and in the model alike.
func rSymTree(fs rFS, t *rTree) {
	for i, p := range rUniverse() {
		if t.kind(path.Dir(p)) != rDir {
			continue
		}
		id := verifName("n", i)
		switch verifChoice(id+".kind", 3) {
		case 1:
			perm := rPerm(id + ".perm")
			data := verifBytes(id+".data", verifChoice(id+".len", 2))
			verifAssert(hackpadfs.WriteFullFile(fs, p, data, perm) == nil, "pre-state: WriteFullFile failed")
			e, _ := t.writeFile(p, data, perm)
			verifAssert(e == 0, "pre-state: model refused WriteFile")
		case 2:
			perm := rPerm(id + ".perm")
			verifAssert(hackpadfs.Mkdir(fs, p, perm) == nil, "pre-state: Mkdir failed")
			e, _ := t.mkdir(p, perm)
			verifAssert(e == 0, "pre-state: model refused Mkdir")
		}
	}
	// every node gets a modification time through Chtimes (children first: creating a child touches the parent)
	u := rUniverse()
	for i := len(u) - 1; i >= 0; i-- {
		p := u[i]
		if t.walk(p) != 0 {
			continue
		}
		sec := verifInt64(verifName("n", i) + ".sec")
		verifAssume(sec >= 1)
		verifAssume(sec < 1<<31)
		verifAssert(hackpadfs.Chtimes(fs, p, time.Unix(sec, 0), time.Unix(sec, 0)) == nil, "pre-state: Chtimes failed")
		e, _ := t.chtimes(p, sec)
		verifAssert(e == 0, "pre-state: model refused Chtimes")
	}
}

// ---- comparison of the whole visible tree ----

func rIsNotExist(err error) bool {
	return errors.Is(err, hackpadfs.ErrNotExist) || errors.Is(err, hackpadfs.ErrNotDir)
}

// rCompare checks that fs shows exactly the model's tree over the closure.
func rCompare(fs rFS, t *rTree, when string) {
	for _, p := range rClosure() {
		info, err := hackpadfs.Stat(fs, p)
		want := t.get(p)
		if t.walk(p) != 0 {
			want = &rNode{}
		}
		if want.kind == rAbsent {
			verifAssert(err != nil, when+": a path exists that must not exist")
			continue
		}
		verifAssert(err == nil, when+": a path that must exist is missing")
		verifAssert(info.IsDir() == (want.kind == rDir), when+": kind differs from os")
		if p != "." {
			verifAssert(info.Mode().Perm() == want.perm, when+": permission bits differ from os")
		}
		if want.specialSet && p != "." {
			verifAssert(info.Mode()&rSpecialBits == want.special, when+": set-uid/set-gid/sticky bits set through Chmod differ from os")
		}
		if want.mtimeSet {
			verifAssert(info.ModTime().Unix() == want.mtime, when+": modification time set through Chtimes differs")
		}
		if want.kind == rFile {
			verifAssert(info.Size() == int64(len(want.data)), when+": file size differs from os")
			got, err := hackpadfs.ReadFile(fs, p)
			verifAssert(err == nil, when+": ReadFile failed")
			verifAssert(len(got) == len(want.data), when+": file length differs from os")
			for i := range want.data {
				verifAssert(got[i] == want.data[i], when+": file bytes differ from os")
			}
		} else {
			entries, err := hackpadfs.ReadDir(fs, p)
			verifAssert(err == nil, when+": ReadDir failed")
			names := t.children(p)
			verifAssert(len(entries) == len(names), when+": directory listing differs from os (count)")
			for i := range names {
				verifAssert(entries[i].Name() == names[i], when+": directory listing differs from os (names/order)")
				verifAssert(entries[i].IsDir() == (t.kind(path.Join(p, names[i])) == rDir), when+": directory listing differs from os (kind)")
			}
		}
	}
}

// ---- one operation with arguments drawn from the candidates ----

var rOpNames = []string{"Mkdir", "MkdirAll", "OpenFile", "WriteFullFile", "Remove", "RemoveAll", "Rename", "Chmod", "Chtimes", "Stat", "ReadDir", "ReadFile"}

// the argument paths of the last rStep
var rLastArg, rLastArg2 string

func pathDir(p string) string { return path.Dir(p) }

type rResult struct {
	err   error
	errno syscall.Errno // model's class
	epath string        // the path os names (single-name operations)
}

func rKindName(k int) string { return []string{"absent", "file", "dir"}[k] }

func rRelation(o, n string) string {
	switch {
	case o == n:
		return "same"
	case rBelow(n, o):
		return "new-below-old"
	case rBelow(o, n):
		return "old-below-new"
	}
	return "unrelated"
}

// rFlagSets: O_RDONLY/O_WRONLY/O_RDWR x O_CREATE x O_EXCL x O_TRUNC x O_APPEND
func rFlag(id string) int {
	if verifParam("FLAGSETS") == 1 {
		// representative subset for multi-step histories
		sets := []int{syscall.O_RDONLY, syscall.O_RDWR, syscall.O_WRONLY | syscall.O_CREAT, syscall.O_RDWR | syscall.O_CREAT | syscall.O_EXCL,
			syscall.O_WRONLY | syscall.O_CREAT | syscall.O_TRUNC, syscall.O_RDONLY | syscall.O_TRUNC, syscall.O_WRONLY | syscall.O_APPEND}
		names := []string{"RDONLY", "RDWR", "WRONLY+create", "RDWR+create+excl", "WRONLY+create+trunc", "RDONLY+trunc", "WRONLY+append"}
		k := verifChoice(id+".set", len(sets))
		verifTag("flags", names[k])
		return sets[k]
	}
	acc := []int{syscall.O_RDONLY, syscall.O_WRONLY, syscall.O_RDWR}[verifChoice(id+".acc", 3)]
	f := acc
	bits := []int{syscall.O_CREAT, syscall.O_EXCL, syscall.O_TRUNC, syscall.O_APPEND}
	names := []string{"create", "excl", "trunc", "append"}
	desc := []string{"RDONLY", "WRONLY", "RDWR"}[acc]
	for i, b := range bits {
		if verifChoice(id+"."+names[i], 2) == 1 {
			f |= b
			desc += "+" + names[i]
		}
	}
	verifTag("flags", desc)
	return f
}

// rStep performs one operation on fs and on the model and returns both outcomes.
func rStep(fs rFS, t *rTree, op int, allowRootMutation bool) rResult {
	cands := rCandidates()
	p := cands[verifChoice("arg", len(cands))]
	rLastArg, rLastArg2 = p, ""
	if !allowRootMutation && p == "." && op >= 4 && op <= 6 {
		verifAssume(false) // removing / renaming the root is excluded
	}
	verifTag("op", rOpNames[op])
	verifTag("target", rKindName(t.kind(p)))
	if p == "." {
		verifTag("arg", "root")
	} else {
		verifTag("arg", "non-root")
		switch t.parent(p) {
		case 0:
			verifTag("parent", "dir")
		case syscall.ENOENT:
			verifTag("parent", "missing")
		default:
			verifTag("parent", "not-a-dir")
		}
	}
	var r rResult
	switch op {
	case 0:
		perm := hackpadfs.FileMode(verifUint32("perm"))
		r.err = hackpadfs.Mkdir(fs, p, perm|rOwner(0700))
		r.errno, r.epath = t.mkdir(p, perm|rOwner(0700))
	case 1:
		perm := hackpadfs.FileMode(verifUint32("perm"))
		r.err = hackpadfs.MkdirAll(fs, p, perm|rOwner(0700))
		r.errno, r.epath = t.mkdirAll(p, perm|rOwner(0700))
	case 2:
		flag := rFlag("flag")
		perm := hackpadfs.FileMode(verifUint32("perm"))
		f, err := hackpadfs.OpenFile(fs, p, flag, perm|rOwner(0600))
		if err == nil {
			verifAssert(f.Close() == nil, "Close of a freshly opened file failed")
		}
		r.err = err
		r.errno, r.epath = t.openFile(p, flag, perm|rOwner(0600))
	case 3:
		perm := hackpadfs.FileMode(verifUint32("perm"))
		data := verifBytes("data", verifChoice("len", 3))
		r.err = hackpadfs.WriteFullFile(fs, p, data, perm|rOwner(0600))
		r.errno, r.epath = t.writeFile(p, data, perm|rOwner(0600))
	case 4:
		r.err = hackpadfs.Remove(fs, p)
		r.errno, r.epath = t.remove(p)
	case 5:
		r.err = hackpadfs.RemoveAll(fs, p)
		r.errno, r.epath = t.removeAll(p)
	case 6:
		n := cands[verifChoice("arg2", len(cands))]
		rLastArg2 = n
		verifTag("new", rKindName(t.kind(n)))
		verifTag("relation", rRelation(p, n))
		if n == "." {
			verifTag("arg2", "root")
		} else {
			verifTag("arg2", "non-root")
			switch t.parent(n) {
			case 0:
				verifTag("newparent", "dir")
			case syscall.ENOENT:
				verifTag("newparent", "missing")
			default:
				verifTag("newparent", "not-a-dir")
			}
		}
		r.err = hackpadfs.Rename(fs, p, n)
		r.errno = t.rename(p, n)
	case 7:
		mode := hackpadfs.FileMode(verifUint32("mode"))
		r.err = hackpadfs.Chmod(fs, p, mode|rOwner(0700))
		r.errno, r.epath = t.chmod(p, mode|rOwner(0700))
	case 8:
		if verifChoice("chtimes.zero", 2) == 1 {
			// os.Chtimes: a zero modification time leaves it unchanged; the access time is given, so the name is
			// still looked up (with BOTH times zero Linux answers success without looking at the name at all:
			// measured with oraclefuzz, left out)
			verifTag("chtimes", "zero-mtime")
			r.err = hackpadfs.Chtimes(fs, p, time.Unix(5, 0), time.Time{})
			if e := t.walk(p); e != 0 {
				r.errno, r.epath = e, p
			}
			break
		}
		sec := verifInt64("sec")
		verifAssume(sec >= 1)
		verifAssume(sec < 1<<31)
		r.err = hackpadfs.Chtimes(fs, p, time.Unix(sec, 0), time.Unix(sec, 0))
		r.errno, r.epath = t.chtimes(p, sec)
	case 9:
		_, r.err = hackpadfs.Stat(fs, p)
		r.errno, r.epath = t.stat(p)
	case 10:
		_, r.err = hackpadfs.ReadDir(fs, p)
		r.errno, r.epath = t.stat(p)
		if r.errno == 0 && t.kind(p) != rDir {
			r.errno, r.epath = syscall.ENOTDIR, p
		}
	case 11:
		_, r.err = hackpadfs.ReadFile(fs, p)
		r.errno, r.epath = t.stat(p)
		if r.errno == 0 && t.kind(p) == rDir {
			r.errno, r.epath = syscall.EISDIR, p
		}
	}
	return r
}
