package pathlock

import "sync"

// Litmus programs for the engine's scheduler and sync models (tier-B gate): each has a known verdict.

// expected: PASS
func VerifLitmusLockedCounter() {
	var mu sync.Mutex
	var wg sync.WaitGroup
	n := 0
	wg.Add(2)
	for i := 0; i < 2; i++ {
		go func() { mu.Lock(); n++; mu.Unlock(); wg.Done() }()
	}
	wg.Wait()
	verifAssert(n == 2, "locked counter == 2")
}

// expected: FAIL (lost update)
func VerifLitmusCheckThenAct() {
	var mu sync.Mutex
	var wg sync.WaitGroup
	n := 0
	wg.Add(2)
	for i := 0; i < 2; i++ {
		go func() {
			mu.Lock()
			t := n
			mu.Unlock()
			mu.Lock()
			n = t + 1
			mu.Unlock()
			wg.Done()
		}()
	}
	wg.Wait()
	verifAssert(n == 2, "check-then-act counter == 2")
}

// expected: DEADLOCK found
func VerifLitmusLockOrder() {
	var a, b sync.Mutex
	var wg sync.WaitGroup
	wg.Add(2)
	go func() { a.Lock(); b.Lock(); b.Unlock(); a.Unlock(); wg.Done() }()
	go func() { b.Lock(); a.Lock(); a.Unlock(); b.Unlock(); wg.Done() }()
	wg.Wait()
}

// expected: PASS (buffered channel hand-over, close, range-like receive)
func VerifLitmusChannel() {
	ch := make(chan int, 1)
	done := make(chan struct{})
	sum := 0
	go func() {
		for {
			v, ok := <-ch
			if !ok {
				close(done)
				return
			}
			sum += v
		}
	}()
	ch <- 1
	ch <- 2
	ch <- 3
	close(ch)
	<-done
	verifAssert(sum == 6, "all sent values received")
}

// expected: PASS (unbuffered rendezvous)
func VerifLitmusRendezvous() {
	ch := make(chan int)
	got := 0
	var wg sync.WaitGroup
	wg.Add(1)
	go func() { got = <-ch; wg.Done() }()
	ch <- 7
	wg.Wait()
	verifAssert(got == 7, "rendezvous delivered the value")
}

// expected: DEADLOCK found (receive that nobody serves)
func VerifLitmusStuckReceive() {
	ch := make(chan int)
	<-ch
}

// expected: FAIL (select may take either ready case)
func VerifLitmusSelectChoice() {
	a, b := make(chan int, 1), make(chan int, 1)
	a <- 1
	b <- 2
	select {
	case v := <-a:
		verifAssert(v == 2, "select took a")
	case v := <-b:
		verifAssert(v == 2, "select took b")
	}
}

// expected: PASS (Once runs exactly once, others wait for it)
func VerifLitmusOnce() {
	var once sync.Once
	var wg sync.WaitGroup
	n := 0
	wg.Add(3)
	for i := 0; i < 3; i++ {
		go func() { once.Do(func() { n++ }); verifAssert(n == 1, "Once finished before Do returns"); wg.Done() }()
	}
	wg.Wait()
	verifAssert(n == 1, "Once ran once")
}

// expected: PASS (RWMutex: readers see a consistent pair)
func VerifLitmusRWMutex() {
	var mu sync.RWMutex
	x, y := 0, 0
	var wg sync.WaitGroup
	wg.Add(2)
	go func() { mu.Lock(); x = 1; y = 1; mu.Unlock(); wg.Done() }()
	go func() { mu.RLock(); verifAssert(x == y, "reader saw a torn pair"); mu.RUnlock(); wg.Done() }()
	wg.Wait()
}
