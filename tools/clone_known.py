#!/usr/bin/env python3
# usage: tools/clone_known.py <property> <from-harness> <to-harness>
# A new harness variant that runs the same operations meets the same recorded defects: clone their
# known entries (same kind/label/tags, same call site) for the new harness name.
import json,sys
prop,src,dst=sys.argv[1:4]
p='/verif/known_findings.json'
k=json.load(open(p))
new=[]
for e in k['findings']:
    if e['property']==prop and e['harness']==src and e['status']=='known':
        n=dict(e); n['harness']=dst; n['id']=e['id'].replace('-'+src,'')+'-'+dst
        if not any(x['id']==n['id'] for x in k['findings']): new.append(n)
k['findings']+=new
json.dump(k,open(p,'w'),indent=1)
print('added',[n['id'] for n in new])
