#!/bin/sh
# usage: tools/confirm_seed.sh <seed dir with patch.diff demo_test.go meta.json> <name>
# Confirms in a scratch worktree: patch applies+builds, existing suite passes with it, demo fails with it and passes without.
S="$1"; NAME="$2"
export GOFLAGS=-mod=mod GOPROXY=off GOSUMDB=off GOTOOLCHAIN=local
WT=/tmp/confirm-$$
git -C /repo worktree add -q --detach $WT HEAD || exit 9
cleanup() { git -C /repo worktree remove --force $WT; }
cd $WT
DEMODIR=$(python3 -c "import json;print(json.load(open('$S/meta.json'))['demo_dir'])")
DEMODIR=${DEMODIR%/}; [ -z "$DEMODIR" ] && DEMODIR=.
if ! patch -p1 -s --fuzz=3 --no-backup-if-mismatch < $S/patch.diff; then echo "$NAME: PATCH-DOES-NOT-APPLY"; cleanup; exit 8; fi
if ! go build ./... 2>/dev/null; then echo "$NAME: DOES-NOT-BUILD"; cleanup; exit 7; fi
SUITE=pass; go test -vet=off -count=1 ./... >/tmp/confirm-$$.log 2>&1 || SUITE=FAIL
if [ $SUITE = FAIL ]; then go test -vet=off -count=1 ./... >/tmp/confirm-$$.log 2>&1 && SUITE="pass(2nd run)"; fi
cp $S/demo_test.go $DEMODIR/zz_seed_demo_test.go
WITH=pass; (cd $DEMODIR && timeout 120 go test -vet=off -count=1 -timeout 60s . >/tmp/confirm-$$.with 2>&1) || WITH=FAIL
git checkout -q -- . 
WITHOUT=pass; (cd $DEMODIR && timeout 120 go test -vet=off -count=1 -timeout 60s . >/tmp/confirm-$$.without 2>&1) || WITHOUT=FAIL
echo "$NAME: suite_with_mutant=$SUITE demo_with_mutant=$WITH demo_without_mutant=$WITHOUT"
[ "$SUITE" = FAIL ] && grep -E "^(--- FAIL|FAIL)" /tmp/confirm-$$.log | head -5
rm -f /tmp/confirm-$$.*
cleanup
