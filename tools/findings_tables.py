#!/usr/bin/env python3
"""Regenerates the tables of DESIGN.md sections 3.1 / 3.2 from known_findings.json (between FIXTABLE / KNOWNTABLE markers)."""
import json,re,collections
root='/verif'
k=json.load(open(root+'/known_findings.json'))
esc=lambda s:str(s).replace('|','\\|').replace('\n',' ')
fixed=[e for e in k['findings'] if e['status']=='fixed']
rows=["| id | commit | harness | what failed before the fix |","|---|---|---|---|"]
for e in fixed:
    rows.append(f"| {e['id']} | `{e.get('commit','')}` | {e['harness']} | {esc(e['what'])[:330]} |")
fixt="\n".join(rows)+"\n"
known=[e for e in k['findings'] if e['status']=='known']
groups=collections.OrderedDict()
for e in known:
    groups.setdefault((e['property'],e['what']),[]).append(e['id'])
rows=["| property | entry | what fails |","|---|---|---|"]
for (p,w),ids in groups.items():
    ent=ids[0] if len(ids)==1 else f"{ids[0]} … ({len(ids)} entries)"
    rows.append(f"| {p} | {ent} | {esc(w)[:420]} |")
knownt="\n".join(rows)+"\n"
p=root+'/DESIGN.md'
s=open(p).read()
def splice(s,name,table,first_line):
    b,e=f'<!-- {name}:BEGIN -->\n',f'<!-- {name}:END -->\n'
    if b in s:
        return s[:s.index(b)+len(b)]+table+s[s.index(e):]
    i=s.index(first_line); j=s.index('\n\n',i)+1
    return s[:i]+b+table+e+s[j:]
s=splice(s,'FIXTABLE',fixt,'| id | commit | harness | what failed before the fix |')
s=splice(s,'KNOWNTABLE',knownt,'| property | entry | what fails |')
s=re.sub(r'### 3\.1 Genuine defects repaired \(\d+ `fix:` commits',f'### 3.1 Genuine defects repaired ({len(fixed)} `fix:` commits',s)
open(p,'w').write(s)
print(len(fixed),'fixed;',len(known),'known entries in',len(groups),'groups;',len(set(w for (_,w) in groups)),'distinct descriptions')
