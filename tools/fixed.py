#!/usr/bin/env python3
"""Record a fixed finding: ./tools/fixed.py C16 <commit> <harness> <kind> <label> <what>"""
import json,sys
K='/verif/known_findings.json'
k=json.load(open(K))
pid,commit,harness,kind,label,what=sys.argv[1:7]
n=1+len([f for f in k['findings'] if f['property']==pid])
k['findings'].append({"property":pid,"id":"%s-F%d"%(pid,n),"status":"fixed","harness":harness,"kind":kind,"label":label,"tags":[],"what":what,"commit":commit})
k['fixed_log'].append("fixed: property=%s %s %s"%(pid,commit,what))
json.dump(k,open(K,'w'),indent=1)
