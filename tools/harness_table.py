#!/usr/bin/env python3
"""Regenerates the harness inventory of DESIGN.md section 4 (between HARNESSTABLE markers) from harness/*/spec.json."""
import json,glob,re
rows=["| property | harnesses registered (quick tier unless marked) |","|---|---|"]
total=0
for p in sorted(glob.glob('/verif/harness/C*/spec.json')):
    sp=json.load(open(p)); prop=p.split('/')[-2]
    names=[]
    for h in sp['harnesses']:
        t=h.get('tiers')
        n='`'+h['name']+'`'
        if t==['thorough']: n+=' (thorough only)'
        elif t==['quick']: n+=' (quick only)'
        if h.get('no_native'): n+=' (engine only)'
        names.append(n); total+=1
    rows.append(f"| {prop} | {', '.join(names)} |")
table="\n".join(rows)+f"\n\n{total} harness registrations in all (a harness registered under two properties counts twice).\n"
p='/verif/DESIGN.md'
s=open(p).read()
b,e='<!-- HARNESSTABLE:BEGIN -->\n','<!-- HARNESSTABLE:END -->\n'
if b in s:
    s=s[:s.index(b)+len(b)]+table+s[s.index(e):]
else:
    anchor="Thorough tiers, measured on the unchanged tree"
    i=s.index(anchor)
    s=s[:i]+"The complete inventory (generated from the specs; the bullets above describe the main harnesses, the\nstrengthenings of section 6 added the rest):\n\n"+b+table+e+"\n"+s[i:]
open(p,'w').write(s)
print(total)
