#!/usr/bin/env python3
"""keep_seed.py <seed dir> <name> <property> <detected: yes|no|n/a> <by/notes>"""
import json,sys,shutil,os
src,name,prop,det,notes=sys.argv[1:6]
dst='/verif/seeded/'+name
os.makedirs(dst,exist_ok=True)
shutil.copy(src+'/patch.diff',dst+'/patch.diff')
shutil.copy(src+'/demo_test.go',dst+'/demo_test.go')
m=json.load(open(src+'/meta.json'))
m['property']=prop
m['confirmed']={"how":"tools/confirm_seed.sh in a scratch worktree of /repo HEAD: patch applies and builds, `go test -vet=off -count=1 ./...` passes with it, the demo test fails with it and passes without it",
  "check":"tools/try_seed.sh (patch applied to a scratch worktree of /repo HEAD, ./check %s quick with VERIF_REPO pointing at it)"%prop,"detected":det,"notes":notes}
json.dump(m,open(dst+'/meta.json','w'),indent=1)
