#!/bin/sh
# Tier-B gate: the scheduler and sync models must give the known verdict on every litmus program.
cd /verif
rc=0
run() { # name expected-pattern
  out=$(./bin/symgo run internal/pathlock $1 harness/litmus/litmus.go PREEMPT=2 2>&1)
  case "$2" in
    PASS) echo "$out" | grep -q "^FAIL\|^PROBLEM" && { echo "LITMUS $1: expected PASS, got: $(echo "$out" | grep '^FAIL\|^PROBLEM' | head -1 | cut -c1-120)"; rc=1; } || echo "LITMUS $1: pass (as expected)";;
    FAIL) echo "$out" | grep -q "^FAIL.*assert" && echo "LITMUS $1: assertion violation found (as expected)" || { echo "LITMUS $1: expected a violation, none found"; rc=1; };;
    DEADLOCK) echo "$out" | grep -q "^FAIL.*deadlock" && echo "LITMUS $1: deadlock found (as expected)" || { echo "LITMUS $1: expected a deadlock, none found"; rc=1; };;
  esac
}
run VerifLitmusLockedCounter PASS
run VerifLitmusCheckThenAct FAIL
run VerifLitmusLockOrder DEADLOCK
run VerifLitmusChannel PASS
run VerifLitmusRendezvous PASS
run VerifLitmusStuckReceive DEADLOCK
run VerifLitmusSelectChoice FAIL
run VerifLitmusOnce PASS
run VerifLitmusRWMutex PASS
exit $rc
