#!/usr/bin/env python3
"""Maintain MANIFEST.json: ./tools/manifest.py add C16 "level text" "level note"   |   na C20 "reason" """
import json,sys
M='/verif/MANIFEST.json'
m=json.load(open(M))
cmd=sys.argv[1]
if cmd=='add':
    pid,text,note=sys.argv[2:5]
    m['checks']=[c for c in m['checks'] if c['property_id']!=pid]
    m['checks'].append({"property_id":pid,"quick_cmd":"./check %s quick"%pid,"thorough_cmd":"./check %s thorough"%pid,
      "evidence_file":"evidence/%s.json"%pid,"replay_cmd_template":"./bin/symgo replay {path}","engine":"symgo",
      "level_claimed":{"category":"model_checking","text":text,"design_ref":"DESIGN.md section 6 (%s)"%pid},
      "level_note":note,
      "technique":"solver-based bounded symbolic execution of the real code's go/ssa (z3 bit-vector queries per assertion and branch), native replay of counterexamples"})
    m['checks'].sort(key=lambda c:c['property_id'])
    m['not_applicable']=[n for n in m.get('not_applicable',[]) if n['property_id']!=pid]
    sp=set(m['engines'][0]['serves_properties']); sp.add(pid); m['engines'][0]['serves_properties']=sorted(sp)
elif cmd=='na':
    pid,reason=sys.argv[2:4]
    m['checks']=[c for c in m['checks'] if c['property_id']!=pid]
    m['not_applicable']=[n for n in m.get('not_applicable',[]) if n['property_id']!=pid]+[{"property_id":pid,"reason":reason}]
    m['not_applicable'].sort(key=lambda c:c['property_id'])
json.dump(m,open(M,'w'),indent=1)
