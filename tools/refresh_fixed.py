#!/usr/bin/env python3
"""Re-resolve the commit of every fixed finding after history edits in /repo (matches by recorded subject)."""
import json,subprocess
K='/verif/known_findings.json'
k=json.load(open(K))
log=[l.split(' ',1) for l in subprocess.check_output(['git','-C','/repo','log','--format=%h %s']).decode().strip().split('\n')]
shas={s:sub for s,sub in log}
subj={sub:s for s,sub in log}
for f in k['findings']:
    if f['status']!='fixed': continue
    if f['commit'] in shas:
        f['subject']=shas[f['commit']]
    elif f.get('subject') in subj:
        f['commit']=subj[f['subject']]
    else:
        print("UNRESOLVED",f['id'],f['commit'],f.get('subject'))
k['fixed_log']=["fixed: property=%s %s %s"%(f['property'],f['commit'],f['what']) for f in k['findings'] if f['status']=='fixed']
json.dump(k,open(K,'w'),indent=1)
