#!/usr/bin/env python3
"""Regenerates the seeded-change table of DESIGN.md (between the SEEDTABLE markers) from seeded/*/meta.json."""
import json,os,re
root='/verif'
rows=[]
def key(n):
    m=re.match(r'C(\d+)-(r(\d+))?m(\d+)',n)
    return (int(m.group(1)), int(m.group(3) or 1), int(m.group(4)))
for n in sorted(os.listdir(root+'/seeded'),key=key):
    m=json.load(open(f'{root}/seeded/{n}/meta.json'))
    c=m.get('confirmed',{})
    esc=lambda s:str(s).replace('|','\\|').replace('\n',' ')
    rows.append(f"| {n} | {esc(m.get('file',''))} | {esc(m.get('summary',''))[:230]} | {c.get('detected','?')} | {esc(c.get('notes',''))[:260]} |")
table="| seed | file changed | change | detected | by / notes |\n|---|---|---|---|---|\n"+"\n".join(rows)+"\n"
p=root+'/DESIGN.md'
s=open(p).read()
b,e='<!-- SEEDTABLE:BEGIN -->\n','<!-- SEEDTABLE:END -->\n'
if b in s:
    s=s[:s.index(b)+len(b)]+table+s[s.index(e):]
else:
    i=s.index('| seed | file changed | change | detected | by / notes |')
    j=s.index('\n\n',i)+1
    s=s[:i]+b+table+e+s[j:]
open(p,'w').write(s)
det=sum(1 for r in rows if '| yes |' in r); print(len(rows),'seeds,',det,'detected')
