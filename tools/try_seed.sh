#!/bin/sh
# usage: tools/try_seed.sh <patch.diff> <property> [tier]
# Applies a seeded change to a scratch worktree of /repo (so concurrently running checks of /repo are not
# disturbed), runs the check against it (VERIF_REPO), removes the worktree. Equivalent to
# git -C /repo apply <patch>; ./check <property> <tier>; git -C /repo checkout -- .
P="$1"; ID="$2"; TIER="${3:-quick}"
export GOFLAGS=-mod=mod GOPROXY=off GOSUMDB=off GOTOOLCHAIN=local
WT=/tmp/seedrepo-$$
git -C /repo worktree add -q --detach $WT HEAD || exit 9
cleanup() { git -C /repo worktree remove --force $WT; }
cd $WT
if ! patch -p1 -s --fuzz=3 --no-backup-if-mismatch < "$P"; then echo "PATCH-DOES-NOT-APPLY $P"; cleanup; exit 8; fi
if ! go build ./... ; then echo "MUTANT-DOES-NOT-BUILD"; cleanup; exit 7; fi
cd /verif && VERIF_REPO=$WT VERIF_EVIDENCE_DIR=/tmp/seedrepo-$$.evidence ./check "$ID" "$TIER" > /tmp/try_seed.$$.log 2>&1; RC=$?
grep -E "^(VIOLATION|KNOWN-FINDING|INCONCLUSIVE)|done in" /tmp/try_seed.$$.log | cut -c1-220
echo "exit=$RC"
rm -rf /tmp/try_seed.$$.log /tmp/seedrepo-$$.evidence
cleanup
exit $RC
