#!/bin/sh
# usage: tools/try_seed.sh <patch.diff> <property> [tier]   — apply a seeded change to /repo, run the check, undo it
P="$1"; ID="$2"; TIER="${3:-quick}"
cd /repo || exit 9
if [ -n "$(git status --porcelain)" ]; then echo "repo not clean"; exit 9; fi
if ! patch -p1 -s --fuzz=3 --no-backup-if-mismatch < "$P"; then echo "PATCH-DOES-NOT-APPLY $P"; git checkout -q -- .; git clean -fdq; exit 8; fi
if ! go build ./... ; then echo "MUTANT-DOES-NOT-BUILD"; git checkout -q -- .; git clean -fdq; exit 7; fi
cd /verif && ./check "$ID" "$TIER" > /tmp/try_seed.$$.log 2>&1; RC=$?
grep -E "^(VIOLATION|KNOWN-FINDING|INCONCLUSIVE)|done in" /tmp/try_seed.$$.log | cut -c1-220
echo "exit=$RC"
rm -f /tmp/try_seed.$$.log
cd /repo && git checkout -q -- . && git clean -fdq
exit $RC
